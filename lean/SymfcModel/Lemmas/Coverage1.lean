/-
  Lemmas/Coverage1.lean — ingredients for the coverage theorems (Lemmas/Coverage.lean):
    (a) membership in `tuples` / `surjections`,
    (b) the normal form of an entry tuple: strictly increasing list of its distinct values
        (`distinctSorted`) and its arrangement (`arrangement`), a surjection onto `{0..k-1}`,
    (c) the lattice translation that produces the smallest possible entry (`exists_min_translate`).
-/
import SymfcModel.Lemmas.OrbitClosed
namespace Symfc
namespace Cov
open OC

/-! ## (a) `tuples`, `surjections` -/

theorem mem_tuples {base k : Nat} {t : List Nat} :
    t ∈ tuples base k ↔ t.length = k ∧ ∀ x ∈ t, x < base := by
  induction k generalizing t with
  | zero =>
    simp only [tuples, List.mem_singleton]
    constructor
    · rintro rfl; simp
    · rintro ⟨h, -⟩; exact List.length_eq_zero_iff.mp h
  | succ k ih =>
    simp only [tuples, List.mem_flatMap, List.mem_range, List.mem_map]
    constructor
    · rintro ⟨d, hd, u, hu, rfl⟩
      obtain ⟨h1, h2⟩ := ih.mp hu
      refine ⟨by simp [h1], ?_⟩
      intro x hx
      rcases List.mem_cons.mp hx with rfl | hx
      · exact hd
      · exact h2 x hx
    · rintro ⟨h1, h2⟩
      match t, h1 with
      | d :: u, h1 =>
        exact ⟨d, h2 d (by simp), u, ih.mpr ⟨by simpa using h1, fun x hx => h2 x (by simp [hx])⟩, rfl⟩

theorem mem_surjections {n k : Nat} {p : List Nat} :
    p ∈ surjections n k ↔ p.length = n ∧ (∀ x ∈ p, x < k) ∧ ∀ v, v < k → v ∈ p := by
  simp only [surjections, List.mem_filter, mem_tuples, List.all_eq_true, List.mem_range,
    List.contains_iff_mem]
  constructor
  · rintro ⟨⟨h1, h2⟩, h3⟩; exact ⟨h1, h2, h3⟩
  · rintro ⟨h1, h2, h3⟩; exact ⟨⟨h1, h2⟩, h3⟩

/-! ## (b) normal form of a tuple -/

/-- the strictly increasing list of the distinct values `< M` of `t` -/
def distinctSorted (M : Nat) (t : List Nat) : List Nat :=
  (List.range M).filter (fun e => t.contains e)

/-- the arrangement of `t`: every entry replaced by its rank among the distinct values -/
def arrangement (M : Nat) (t : List Nat) : List Nat :=
  t.map (fun e => (distinctSorted M t).idxOf e)

theorem distinctSorted_sorted (M : Nat) (t : List Nat) :
    (distinctSorted M t).Pairwise (· < ·) :=
  List.pairwise_lt_range.filter _

theorem mem_distinctSorted {M : Nat} {t : List Nat} {e : Nat} :
    e ∈ distinctSorted M t ↔ e < M ∧ e ∈ t := by
  simp [distinctSorted]

theorem nodup_of_sorted {l : List Nat} (h : l.Pairwise (· < ·)) : l.Nodup :=
  h.imp (fun hab => Nat.ne_of_lt hab)

/-- pigeonhole: a duplicate-free list whose members all occur in `t` is no longer than `t` -/
theorem length_le_of_nodup_subset : ∀ (l t : List Nat), l.Nodup → (∀ x ∈ l, x ∈ t) →
    l.length ≤ t.length := by
  intro l
  induction l with
  | nil => intro t _ _; simp
  | cons a l ih =>
    intro t hnd hsub
    have ha : a ∈ t := hsub a (by simp)
    have hnd' := List.nodup_cons.mp hnd
    have := ih (t.erase a) hnd'.2 (fun x hx => by
      have hxa : x ≠ a := fun h => hnd'.1 (h ▸ hx)
      exact (List.mem_erase_of_ne hxa).mpr (hsub x (by simp [hx])))
    rw [List.length_erase_of_mem ha] at this
    have hpos : 0 < t.length := List.length_pos_of_mem ha
    simp only [List.length_cons]
    omega

theorem distinctSorted_length_le (M : Nat) (t : List Nat) :
    (distinctSorted M t).length ≤ t.length :=
  length_le_of_nodup_subset _ _ (nodup_of_sorted (distinctSorted_sorted M t))
    (fun _ hx => (mem_distinctSorted.mp hx).2)

theorem distinctSorted_pos {M : Nat} {t : List Nat} (hne : t ≠ []) (hlt : ∀ e ∈ t, e < M) :
    0 < (distinctSorted M t).length := by
  cases t with
  | nil => exact absurd rfl hne
  | cons a u =>
    exact List.length_pos_of_mem (mem_distinctSorted.mpr ⟨hlt a (by simp), by simp⟩)

theorem getD_idxOf {xs : List Nat} {e : Nat} (h : e ∈ xs) : xs.getD (xs.idxOf e) 0 = e := by
  have hl := List.idxOf_lt_length_of_mem h
  rw [← List.getElem_eq_getD (h := hl)]
  exact List.getElem_idxOf hl

theorem idxOf_inj {xs : List Nat} {a b : Nat} (ha : a ∈ xs) (hb : b ∈ xs)
    (h : xs.idxOf a = xs.idxOf b) : a = b := by
  rw [← getD_idxOf ha, ← getD_idxOf hb, h]

/-- the arrangement applied to the distinct values gives the tuple back -/
theorem act_arrangement {M : Nat} {t : List Nat} (hlt : ∀ e ∈ t, e < M) :
    act (arrangement M t) (distinctSorted M t) = t := by
  unfold act arrangement
  rw [List.map_map]
  conv => rhs; rw [← List.map_id t]
  apply List.map_congr_left
  intro e he
  exact getD_idxOf (mem_distinctSorted.mpr ⟨hlt e he, he⟩)

theorem arrangement_length (M : Nat) (t : List Nat) : (arrangement M t).length = t.length := by
  simp [arrangement]

/-- the arrangement is a surjection of the positions onto `{0..k-1}` -/
theorem arrangement_mem_surjections {M : Nat} {t : List Nat} (hlt : ∀ e ∈ t, e < M) :
    arrangement M t ∈ surjections t.length (distinctSorted M t).length := by
  rw [mem_surjections]
  refine ⟨arrangement_length M t, ?_, ?_⟩
  · intro x hx
    obtain ⟨e, he, rfl⟩ := List.mem_map.mp hx
    exact List.idxOf_lt_length_of_mem (mem_distinctSorted.mpr ⟨hlt e he, he⟩)
  · intro v hv
    have hmem : (distinctSorted M t)[v] ∈ distinctSorted M t := List.getElem_mem hv
    refine List.mem_map.mpr ⟨(distinctSorted M t)[v], (mem_distinctSorted.mp hmem).2, ?_⟩
    have hnd := nodup_of_sorted (distinctSorted_sorted M t)
    exact List.Nodup.idxOf_getElem hnd v hv

/-- the head of the distinct values is the smallest entry -/
theorem distinctSorted_head {M : Nat} {t : List Nat} {v : Nat} (hv : v ∈ t) (hvM : v < M)
    (hmin : ∀ e ∈ t, v ≤ e) : (distinctSorted M t).headD 0 = v := by
  have hmem : v ∈ distinctSorted M t := mem_distinctSorted.mpr ⟨hvM, hv⟩
  have hs := distinctSorted_sorted M t
  generalize hds : distinctSorted M t = ds at hmem hs
  cases ds with
  | nil => cases hmem
  | cons a u =>
    simp only [List.headD_cons]
    have ha : a ∈ t := (mem_distinctSorted.mp (hds ▸ List.mem_cons_self)).2
    have h1 := hmin a ha
    rcases List.mem_cons.mp hmem with rfl | hvu
    · rfl
    · have := (List.pairwise_cons.mp hs).1 v hvu
      omega

/-- two combinations that agree on all positions used by `p` give the same tuple -/
theorem act_congr {p comb comb' : List Nat}
    (h : ∀ pos ∈ p, comb.getD pos 0 = comb'.getD pos 0) : act p comb = act p comb' :=
  List.map_congr_left h

/-! ## (c) lattice translations of entries -/

theorem tauE_lt {c : Cell} (h : Cell.WF c) {l e : Nat} (hl : l < c.nlp) (he : e < 3 * c.N) :
    tauE c l e < 3 * c.N := by
  have := h.img_lt l (e / 3) hl (by omega)
  unfold tauE
  omega

theorem tauE_inj {c : Cell} (h : Cell.WF c) {l a b : Nat} (hl : l < c.nlp) (ha : a < 3 * c.N)
    (hb : b < 3 * c.N) (e : tauE c l a = tauE c l b) : a = b := by
  unfold tauE at e
  have h1 : c.img l (a / 3) = c.img l (b / 3) := by omega
  have := h.img_inj l _ _ hl (by omega) (by omega) h1
  omega

theorem tauE_div (c : Cell) (l e : Nat) : tauE c l e / 3 = c.img l (e / 3) := by
  unfold tauE; omega

theorem tauE_comp {c : Cell} {k l m : Nat}
    (hc : ∀ i, i < c.N → c.img k i = c.img l (c.img m i)) {e : Nat} (he : e < 3 * c.N) :
    tauE c k e = tauE c l (tauE c m e) := by
  have h1 : tauE c m e / 3 = c.img m (e / 3) := tauE_div c m e
  have h2 : tauE c m e % 3 = e % 3 := by unfold tauE; omega
  have h3 := hc (e / 3) (by omega)
  show 3 * c.img k (e / 3) + e % 3 = 3 * c.img l (tauE c m e / 3) + tauE c m e % 3
  rw [h1, h2, h3]

theorem valid_map_tauE {c : Cell} (h : Cell.WF c) {n l : Nat} {t : List Nat} (hl : l < c.nlp)
    (ht : Valid c.N n t) : Valid c.N n (t.map (tauE c l)) := by
  refine ⟨by rw [List.length_map, ht.1], ?_⟩
  intro e he
  obtain ⟨a, ha, rfl⟩ := List.mem_map.mp he
  exact tauE_lt h hl (ht.2 a ha)

/-- among all lattice translates of a tuple there is one containing the smallest entry that can
    be produced at all; the atom of that entry is the lowest of its orbit, i.e. independent -/
theorem exists_min_translate {c : Cell} (h : Cell.WF c) {n : Nat} (hn : 1 ≤ n) {t : List Nat}
    (ht : Valid c.N n t) :
    ∃ l, l < c.nlp ∧ ∃ v, v ∈ t.map (tauE c l) ∧ (∀ e ∈ t.map (tauE c l), v ≤ e) ∧
      v / 3 ∈ c.indepAtoms := by
  have hpos : 0 < c.nlp * n := Nat.mul_pos h.nlp_pos (by omega)
  obtain ⟨q, hq, hmin⟩ := exists_min_lt (fun q => tauE c (q / n) (t.getD (q % n) 0)) _ hpos
  have hn0 : 0 < n := by omega
  have hl : q / n < c.nlp := (Nat.div_lt_iff_lt_mul hn0).mpr hq
  have hj : q % n < t.length := by rw [ht.1]; exact Nat.mod_lt _ hn0
  have hej : t.getD (q % n) 0 ∈ t := OC.getD_mem_of_lt hj
  -- global minimality
  have hglob : ∀ l', l' < c.nlp → ∀ e ∈ t,
      tauE c (q / n) (t.getD (q % n) 0) ≤ tauE c l' e := by
    intro l' hl' e he
    obtain ⟨j', hj', rfl⟩ := exists_getD_of_mem he
    rw [ht.1] at hj'
    have hlt : l' * n + j' < c.nlp * n := by
      have : (l' + 1) * n ≤ c.nlp * n := Nat.mul_le_mul_right _ hl'
      rw [Nat.add_mul] at this
      omega
    have := hmin (l' * n + j') hlt
    have e1 : (l' * n + j') / n = l' := by
      rw [Nat.mul_comm, Nat.mul_add_div hn0, Nat.div_eq_of_lt hj']; omega
    have e2 : (l' * n + j') % n = j' := by
      rw [Nat.mul_comm, Nat.mul_add_mod, Nat.mod_eq_of_lt hj']
    rw [e1, e2] at this
    exact this
  refine ⟨q / n, hl, tauE c (q / n) (t.getD (q % n) 0), List.mem_map.mpr ⟨_, hej, rfl⟩, ?_, ?_⟩
  · intro e he
    obtain ⟨a, ha, rfl⟩ := List.mem_map.mp he
    exact hglob _ hl a ha
  · have heN := ht.2 _ hej
    generalize t.getD (q % n) 0 = e0 at hej heN hglob
    rw [Cell.WF.mem_indep h]
    have hvN := tauE_lt h hl heN
    refine ⟨by omega, ?_⟩
    intro l' hl'
    obtain ⟨k, hk, hc⟩ := h.closure l' (q / n) hl' hl
    have h1 := hglob k hk e0 hej
    rw [tauE_comp hc heN] at h1
    generalize tauE c (q / n) e0 = v at h1 hvN
    unfold tauE at h1
    omega

end Cov
end Symfc
