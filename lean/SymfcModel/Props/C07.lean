/-
  Props/C07.lean — cutoff zeroes exactly the out-of-range elements and nothing else. PROPERTY THEOREMS ONLY.
  `x : CutoffIn` carries the distance matrix and the radius; `near x i j := x.d i j < x.cutoff`.
  The distance computation after the Niggli reduction IS modelled in exact arithmetic (Model/Dist.lean, last section);
  the reduction itself (spglib) is trusted.
-/
import SymfcModel.Model.Cutoff
import SymfcModel.Gen.Cutoff
import SymfcModel.Gen.ApiCompute
import SymfcModel.Lemmas.Cutoff
import SymfcModel.Lemmas.Coverage
import SymfcModel.Lemmas.Dist
namespace Symfc.C07
open Symfc

/-- C07.a: every comparison against the cutoff is strict `<` (so distance ≥ cutoff is out), `outsides` is its
    exact complement `≥`, and orders 3 and 4 test EVERY pair of the candidate tuple (1 resp. 3 pairs, the last
    atom being covered by the neighbour list). -/
theorem cutoff_comparisons_are_the_specified_ones :
    Gen.cutoffOps = { neighbors := .lt, outsides := .ge,
                      comb3 := [(0, 1, .lt)], comb4 := [(0, 1, .lt), (0, 2, .lt), (1, 2, .lt)],
                      nonzero3 := [(0, 1, .lt)], nonzero4 := [(0, 1, .lt), (0, 2, .lt), (1, 2, .lt)],
                      comb2Idx := .lt, comb3Idx := .lt, comb4Idx := .lt, images := [-1, 0, 1] } := by
  decide

/-- C07.e: each order's basis set is built with that order's own radius -/
theorem each_order_gets_its_own_cutoff : Gen.computeCutoffKeys = [(2, 2), (3, 3), (4, 4)] := by decide

/-- C07.a: for orders 2, 3, 4 the index combinations handed to the permutation stage are EXACTLY the strictly
    increasing tuples of (atom, Cartesian) entries whose atoms are pairwise within the cutoff — nothing with a far
    pair gets in, nothing admissible is left out, nothing is listed twice. -/
theorem combinations_are_exactly_the_pairwise_near_tuples (x : CutoffIn)
    (hsym : ∀ i j, x.d i j = x.d j i) (hself : ∀ i, i < x.N → x.d i i < x.cutoff)
    (k : Nat) (hk : k = 2 ∨ k = 3 ∨ k = 4) (c : List Nat) :
    (c ∈ x.combinations Gen.cutoffOps k ↔
      c.length = k ∧ c.Pairwise (· < ·) ∧ (∀ e ∈ c, e < 3 * x.N) ∧ pairwiseNear x (c.map (· / 3))) ∧
    (x.combinations Gen.cutoffOps k).Nodup :=
  ⟨mem_combinations hsym hself hk, combinations_nodup x hk⟩

/-- C07.a/b: the mask used by the coset projector and by the sum rule (`nonzero_atomic_indices_fc{n}`) flags EXACTLY
    the atom tuples that are pairwise within the cutoff … -/
theorem nonzero_mask_is_pairwise_near (x : CutoffIn)
    (hsym : ∀ i j, x.d i j = x.d j i) (hself : ∀ i, i < x.N → x.d i i < x.cutoff)
    (n : Nat) (hn : n = 2 ∨ n = 3 ∨ n = 4) (atoms : List Nat) (hlen : atoms.length = n) (hlt : ∀ a ∈ atoms, a < x.N) :
    (x.nonzeroAtomic Gen.cutoffOps n).getD (flat x.N atoms) false = true ↔ pairwiseNear x atoms :=
  nonzeroAtomic_iff hsym hself hn hlen hlt

/-- … so the three places where the cutoff is applied agree: an increasing tuple is linked by the permutation stage
    iff its atom tuple is kept by the coset-projector mask and summed in its sum-rule row (C03.b). -/
theorem the_three_masks_agree (x : CutoffIn) (hsym : ∀ i j, x.d i j = x.d j i)
    (k : Nat) (hk : k = 2 ∨ k = 3 ∨ k = 4) (c : List Nat)
    (hlen : c.length = k) (hinc : c.Pairwise (· < ·)) (hlt : ∀ e ∈ c, e < 3 * x.N) :
    c ∈ x.combinations Gen.cutoffOps k ↔
      (x.nonzeroAtomic Gen.cutoffOps k).getD (flat x.N (c.map (· / 3))) false = true :=
  mem_combinations_iff_nonzeroAtomic hsym hk hlen hinc hlt

/-- C07.d: enlarging the cutoff never removes an admitted combination … -/
theorem enlarging_the_cutoff_never_shrinks (x x' : CutoffIn) (hN : x'.N = x.N)
    (h : ∀ i j, near x i j → near x' i j) (k : Nat) (hk : k = 2 ∨ k = 3 ∨ k = 4) (c : List Nat)
    (hc : c ∈ x.combinations Gen.cutoffOps k) : c ∈ x'.combinations Gen.cutoffOps k :=
  combinations_mono hN h hk hc

/-- … and a cutoff larger than every interatomic distance admits exactly the combinations of the no-cutoff path
    (`get_entire_combinations`), as a rearrangement of the same list. -/
theorem cutoff_beyond_all_distances_is_no_cutoff (x : CutoffIn)
    (hall : ∀ i j, i < x.N → j < x.N → near x i j) (k : Nat) (hk : k = 2 ∨ k = 3 ∨ k = 4) :
    (x.combinations Gen.cutoffOps k).Perm (entireCombinations (3 * x.N) k) :=
  combinations_perm_entire hall hk

/-- the no-cutoff path lists exactly the strictly increasing k-tuples below 3N -/
theorem no_cutoff_combinations (n r : Nat) (c : List Nat) :
    c ∈ entireCombinations n r ↔ c.length = r ∧ c.Pairwise (· < ·) ∧ ∀ e ∈ c, e < n :=
  mem_entireCombinations

/-- C07.b/c (orders 2 and 3), EXACT ZERO PATTERN on the model: with a cutoff whose nearness relation is symmetric,
    reflexive and invariant under the lattice translations, an element is written by the permutation stage (kept as a
    free parameter up to symmetry) IF AND ONLY IF its atoms are pairwise within the cutoff; every element containing a
    far pair is never written, is eliminated, has an empty row in `c_pt` and therefore is a structural (exact) zero of
    every output — and nothing inside the cutoff is lost. -/
theorem covered_iff_pairwise_within_cutoff_O2_O3 (c : Cell) (hwf : c.wf = true) (n : Nat) (hn : n = 2 ∨ n = 3)
    (x : CutoffIn) (hN : x.N = c.N)
    (hsym : ∀ i j, i < c.N → j < c.N → near x i j → near x j i)
    (hrefl : ∀ i, i < c.N → near x i i)
    (hinv : ∀ l, l < c.nlp → ∀ i j, i < c.N → j < c.N → (near x (c.img l i) (c.img l j) ↔ near x i j))
    (nBatch : String → Nat) (ptr' : Array Int)
    (h : permDecompr Gen.cutoffOps c n (repFor n) (stagesFor n) (some x) nBatch = some ptr')
    (t : List Nat) (hlen : t.length = n) (hlt : ∀ e ∈ t, e < 3 * c.N) :
    covered ptr' (elemIdx c.N (c.atomicDecompr n) t) ↔ pairwiseNear x (t.map (· / 3)) :=
  Cov.V2_covered c hwf hn x hN hsym hrefl hinv nBatch ptr' h t hlen hlt

/-- C07.b/c (order 4): the same with the (p,p,q,q) pattern of finding F1 excepted -/
theorem covered_iff_pairwise_within_cutoff_O4 (c : Cell) (hwf : c.wf = true) (cut : Option CutoffIn)
    (hcut : ∀ x, cut = some x → Cov.CutOK c x) (nBatch : String → Nat) (ptr' : Array Int)
    (h : permDecompr Gen.cutoffOps c 4 Gen.repKindO4 Gen.stagesO4 cut nBatch = some ptr')
    (t : List Nat) (hlen : t.length = 4) (hlt : ∀ e ∈ t, e < 3 * c.N) :
    covered ptr' (elemIdx c.N (c.atomicDecompr 4) t) ↔ Cov.ppqq t = false ∧ Cov.admissible cut t :=
  Cov.V3_covered c hwf cut hcut nBatch ptr' h t hlen hlt

/-! ## the distances themselves (`FCCutoff._calc_distances` after the Niggli reduction, exact arithmetic on a grid) -/

open Dist in
/-- C07.d: the computed minimum-image distance is symmetric, non-negative, and zero from an atom to itself (positive
    semidefinite Gram matrix of the reduced basis) — for ANY inputs, no reducedness needed. -/
theorem computed_distances_are_symmetric_and_zero_on_the_diagonal {G : List (List Int)} (hG : PSD G) (S : Int)
    {p q : List Int} (hp : p.length = 3) (hq : q.length = 3) :
    minImage2 S G p q = minImage2 S G q p ∧ 0 ≤ minImage2 S G p q ∧ minImage2 S G p p = 0 :=
  ⟨minImage2_symm S G p q, minImage2_nonneg hG S hp hq, minImage2_self hG S hp⟩

open Dist in
/-- C07.d / C10: writing atoms with integer offsets of their fractional coordinates does not change the computed
    distance, PROVIDED no coordinate sits exactly on the rounding boundary ±1/2 … -/
theorem computed_distances_ignore_integer_offsets (S : Int) (G : List (List Int)) {p q mp mq : List Int}
    (hmp : mp.length = p.length) (hmq : mq.length = q.length)
    (nbp : ∀ x ∈ p, 2 * (x % S) ≠ S) (nbq : ∀ x ∈ q, 2 * (x % S) ≠ S) :
    minImage2 S G (shiftBy S p mp) (shiftBy S q mq) = minImage2 S G p q :=
  minImage2_offsets S G hmp hmq nbp nbq

open Dist in
/-- … and the proviso is necessary for the algorithm as written (27 images after `x − rint(x)` with half-to-even
    rounding): for a NON-reduced positive definite basis an offset of a boundary coordinate changes the result (1 → 5).
    The code relies on the Niggli reduction to make the 27-image window sufficient; that reliance is the content of the
    decidable hypothesis `WindowOK3` below, which the correspondence check evaluates on every real input. -/
theorem offsets_matter_on_the_rounding_boundary_of_a_non_reduced_basis :
    let S : Int := 2
    let G : List (List Int) := [[5, 2, 0], [2, 2, 1], [0, 1, 1]]
    PSD G ∧ shiftBy S [0, 1, 1] [0, 1, 1] = [0, 3, 3] ∧
    minImage2 S G [0, 1, 1] [1, 1, 1] = 1 ∧ minImage2 S G [0, 3, 3] [1, 1, 1] = 5 :=
  let h := minImage2_offsets_false
  ⟨h.2.2.2.1, h.2.2.2.2.1, h.2.2.2.2.2.1, h.2.2.2.2.2.2.1⟩

open Dist in
/-- C07.d: when the 27-image window is sufficient (`WindowOK3`: it gives the same minimum as the 7³ window — decidable,
    checked on the inputs), the computed distance is invariant under every lattice translation of the structure … -/
theorem computed_distances_are_translation_invariant {S : Int} (hS : 0 < S) (G : List (List Int)) {ps : List (List Int)}
    (hlen : ∀ p ∈ ps, p.length = 3) (hw : WindowOK3 S G ps = true)
    {τ : Nat → Nat} {a : List Int} (hτ : TransPerm S ps τ a)
    {i j : Nat} (hi : i < ps.length) (hj : j < ps.length) :
    minImage2 S G (ps.getD (τ i) []) (ps.getD (τ j) []) = minImage2 S G (ps.getD i []) (ps.getD j []) :=
  window_sufficient hS G hlen hw hτ hi hj

open Dist in
/-- … hence the cutoff input BUILT FROM THE COMPUTED DISTANCES satisfies `Cov.CutOK` — the hypothesis of every
    coverage / cutoff theorem above and of C04, C10 — for every supercell whose translation permutations are induced
    by grid translations: the symmetric, reflexive, translation-invariant nearness is no longer an assumption about an
    input table but a theorem about the modelled distance code. -/
theorem computed_nearness_satisfies_the_cutoff_hypotheses {S : Int} (hS : 0 < S) {G : List (List Int)} (hG : PSD G)
    {ps : List (List Int)} (hlen : ∀ p ∈ ps, p.length = 3) (hw : WindowOK3 S G ps = true) {cut2 : Int}
    (hcut : 0 < cut2) (c : Cell) (hN : c.N = ps.length)
    (htr : ∀ l, l < c.nlp → ∃ a : List Int, TransPerm S ps (c.img l) a) :
    Cov.CutOK c (cutoffInOf S G ps cut2) :=
  cutOK_of_dist hS hG hlen hw hcut c hN htr

open Dist in
/-- non-vacuity: a sheared reduced cell with four atoms (two on the rounding boundary), S = 8 -/
theorem computed_distances_example :
    dist2Matrix 8 G8 ps8 = [[0, 64, 173, 157], [64, 0, 157, 173], [173, 157, 0, 64], [157, 173, 64, 0]] ∧
    WindowOK3 8 G8 ps8 = true :=
  ⟨example8_matrix, example8_window.1⟩

end Symfc.C07
