/-
  Props/C07.lean — cutoff zeroes exactly the out-of-range elements and nothing else. PROPERTY THEOREMS ONLY.
  `x : CutoffIn` carries the distance matrix and the radius; `near x i j := x.d i j < x.cutoff`.
  The distances themselves (`_calc_distances`, Niggli reduction) are NOT modelled: they are an input here.
-/
import SymfcModel.Model.Cutoff
import SymfcModel.Gen.Cutoff
import SymfcModel.Gen.ApiCompute
import SymfcModel.Lemmas.Cutoff
import SymfcModel.Lemmas.Coverage
namespace Symfc.C07
open Symfc

/-- C07.a: every comparison against the cutoff is strict `<` (so distance ≥ cutoff is out), `outsides` is its
    exact complement `≥`, and orders 3 and 4 test EVERY pair of the candidate tuple (1 resp. 3 pairs, the last
    atom being covered by the neighbour list). -/
theorem cutoff_comparisons_are_the_specified_ones :
    Gen.cutoffOps = { neighbors := .lt, outsides := .ge,
                      comb3 := [(0, 1, .lt)], comb4 := [(0, 1, .lt), (0, 2, .lt), (1, 2, .lt)],
                      nonzero3 := [(0, 1, .lt)], nonzero4 := [(0, 1, .lt), (0, 2, .lt), (1, 2, .lt)],
                      comb2Idx := .lt, comb3Idx := .lt, comb4Idx := .lt, images := [-1, 0, 1] } := by
  decide

/-- C07.e: each order's basis set is built with that order's own radius -/
theorem each_order_gets_its_own_cutoff : Gen.computeCutoffKeys = [(2, 2), (3, 3), (4, 4)] := by decide

/-- C07.a: for orders 2, 3, 4 the index combinations handed to the permutation stage are EXACTLY the strictly
    increasing tuples of (atom, Cartesian) entries whose atoms are pairwise within the cutoff — nothing with a far
    pair gets in, nothing admissible is left out, nothing is listed twice. -/
theorem combinations_are_exactly_the_pairwise_near_tuples (x : CutoffIn)
    (hsym : ∀ i j, x.d i j = x.d j i) (hself : ∀ i, i < x.N → x.d i i < x.cutoff)
    (k : Nat) (hk : k = 2 ∨ k = 3 ∨ k = 4) (c : List Nat) :
    (c ∈ x.combinations Gen.cutoffOps k ↔
      c.length = k ∧ c.Pairwise (· < ·) ∧ (∀ e ∈ c, e < 3 * x.N) ∧ pairwiseNear x (c.map (· / 3))) ∧
    (x.combinations Gen.cutoffOps k).Nodup :=
  ⟨mem_combinations hsym hself hk, combinations_nodup x hk⟩

/-- C07.a/b: the mask used by the coset projector and by the sum rule (`nonzero_atomic_indices_fc{n}`) flags EXACTLY
    the atom tuples that are pairwise within the cutoff … -/
theorem nonzero_mask_is_pairwise_near (x : CutoffIn)
    (hsym : ∀ i j, x.d i j = x.d j i) (hself : ∀ i, i < x.N → x.d i i < x.cutoff)
    (n : Nat) (hn : n = 2 ∨ n = 3 ∨ n = 4) (atoms : List Nat) (hlen : atoms.length = n) (hlt : ∀ a ∈ atoms, a < x.N) :
    (x.nonzeroAtomic Gen.cutoffOps n).getD (flat x.N atoms) false = true ↔ pairwiseNear x atoms :=
  nonzeroAtomic_iff hsym hself hn hlen hlt

/-- … so the three places where the cutoff is applied agree: an increasing tuple is linked by the permutation stage
    iff its atom tuple is kept by the coset-projector mask and summed in its sum-rule row (C03.b). -/
theorem the_three_masks_agree (x : CutoffIn) (hsym : ∀ i j, x.d i j = x.d j i)
    (k : Nat) (hk : k = 2 ∨ k = 3 ∨ k = 4) (c : List Nat)
    (hlen : c.length = k) (hinc : c.Pairwise (· < ·)) (hlt : ∀ e ∈ c, e < 3 * x.N) :
    c ∈ x.combinations Gen.cutoffOps k ↔
      (x.nonzeroAtomic Gen.cutoffOps k).getD (flat x.N (c.map (· / 3))) false = true :=
  mem_combinations_iff_nonzeroAtomic hsym hk hlen hinc hlt

/-- C07.d: enlarging the cutoff never removes an admitted combination … -/
theorem enlarging_the_cutoff_never_shrinks (x x' : CutoffIn) (hN : x'.N = x.N)
    (h : ∀ i j, near x i j → near x' i j) (k : Nat) (hk : k = 2 ∨ k = 3 ∨ k = 4) (c : List Nat)
    (hc : c ∈ x.combinations Gen.cutoffOps k) : c ∈ x'.combinations Gen.cutoffOps k :=
  combinations_mono hN h hk hc

/-- … and a cutoff larger than every interatomic distance admits exactly the combinations of the no-cutoff path
    (`get_entire_combinations`), as a rearrangement of the same list. -/
theorem cutoff_beyond_all_distances_is_no_cutoff (x : CutoffIn)
    (hall : ∀ i j, i < x.N → j < x.N → near x i j) (k : Nat) (hk : k = 2 ∨ k = 3 ∨ k = 4) :
    (x.combinations Gen.cutoffOps k).Perm (entireCombinations (3 * x.N) k) :=
  combinations_perm_entire hall hk

/-- the no-cutoff path lists exactly the strictly increasing k-tuples below 3N -/
theorem no_cutoff_combinations (n r : Nat) (c : List Nat) :
    c ∈ entireCombinations n r ↔ c.length = r ∧ c.Pairwise (· < ·) ∧ ∀ e ∈ c, e < n :=
  mem_entireCombinations

/-- C07.b/c (orders 2 and 3), EXACT ZERO PATTERN on the model: with a cutoff whose nearness relation is symmetric,
    reflexive and invariant under the lattice translations, an element is written by the permutation stage (kept as a
    free parameter up to symmetry) IF AND ONLY IF its atoms are pairwise within the cutoff; every element containing a
    far pair is never written, is eliminated, has an empty row in `c_pt` and therefore is a structural (exact) zero of
    every output — and nothing inside the cutoff is lost. -/
theorem covered_iff_pairwise_within_cutoff_O2_O3 (c : Cell) (hwf : c.wf = true) (n : Nat) (hn : n = 2 ∨ n = 3)
    (x : CutoffIn) (hN : x.N = c.N)
    (hsym : ∀ i j, i < c.N → j < c.N → near x i j → near x j i)
    (hrefl : ∀ i, i < c.N → near x i i)
    (hinv : ∀ l, l < c.nlp → ∀ i j, i < c.N → j < c.N → (near x (c.img l i) (c.img l j) ↔ near x i j))
    (nBatch : String → Nat) (ptr' : Array Int)
    (h : permDecompr Gen.cutoffOps c n (repFor n) (stagesFor n) (some x) nBatch = some ptr')
    (t : List Nat) (hlen : t.length = n) (hlt : ∀ e ∈ t, e < 3 * c.N) :
    covered ptr' (elemIdx c.N (c.atomicDecompr n) t) ↔ pairwiseNear x (t.map (· / 3)) :=
  Cov.V2_covered c hwf hn x hN hsym hrefl hinv nBatch ptr' h t hlen hlt

/-- C07.b/c (order 4): the same with the (p,p,q,q) pattern of finding F1 excepted -/
theorem covered_iff_pairwise_within_cutoff_O4 (c : Cell) (hwf : c.wf = true) (cut : Option CutoffIn)
    (hcut : ∀ x, cut = some x → Cov.CutOK c x) (nBatch : String → Nat) (ptr' : Array Int)
    (h : permDecompr Gen.cutoffOps c 4 Gen.repKindO4 Gen.stagesO4 cut nBatch = some ptr')
    (t : List Nat) (hlen : t.length = 4) (hlt : ∀ e ∈ t, e < 3 * c.N) :
    covered ptr' (elemIdx c.N (c.atomicDecompr 4) t) ↔ Cov.ppqq t = false ∧ Cov.admissible cut t :=
  Cov.V3_covered c hwf cut hcut nBatch ptr' h t hlen hlt

end Symfc.C07
