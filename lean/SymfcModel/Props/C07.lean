/-
  Props/C07.lean — cutoff zeroes exactly the out-of-range elements. PROPERTY THEOREMS ONLY.
-/
import SymfcModel.Model.Cutoff
import SymfcModel.Gen.Cutoff
import SymfcModel.Gen.Api
namespace Symfc.C07
open Symfc

/-- C07.a: every comparison against the cutoff is strict `<` (so distance ≥ cutoff is out), `outsides` is its
    exact complement `≥`, and orders 3 and 4 test EVERY pair of the candidate tuple (1 resp. 3 pairs, the last
    atom being covered by the neighbour list). -/
theorem cutoff_comparisons_are_the_specified_ones :
    Gen.cutoffOps = { neighbors := .lt, outsides := .ge,
                      comb3 := [(0, 1, .lt)], comb4 := [(0, 1, .lt), (0, 2, .lt), (1, 2, .lt)],
                      nonzero3 := [(0, 1, .lt)], nonzero4 := [(0, 1, .lt), (0, 2, .lt), (1, 2, .lt)],
                      comb2Idx := .lt, comb3Idx := .lt, comb4Idx := .lt, images := [-1, 0, 1] } := by
  decide

/-- C07.e: each order's basis set is built with that order's own radius -/
theorem each_order_gets_its_own_cutoff : Gen.computeCutoffKeys = [(2, 2), (3, 3), (4, 4)] := by decide

end Symfc.C07
