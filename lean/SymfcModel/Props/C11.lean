/-
  Props/C11.lean — results do not depend on batching, thresholds or other evaluation paths.
  PROPERTY THEOREMS ONLY.
-/
import SymfcModel.Model.Inst
import SymfcModel.Model.Tables
import SymfcModel.Lemmas.Batch
import SymfcModel.Lemmas.Chunk
import SymfcModel.Lemmas.Design
import SymfcModel.Lemmas.SpanIndep
namespace Symfc.C11
open Symfc

/-- C11 (finding F6 fixed): an explicit `n_batch` binds the batch count of every stage, for every order -/
theorem explicit_n_batch_binds_every_stage :
    Gen.explicitBatchBoundO2 = true ∧ Gen.explicitBatchBoundO3 = true ∧ Gen.explicitBatchBoundO4 = true := by decide

/-- C11.d: fast path and projector reference path use the same arrangement tables and group sizes -/
theorem fast_and_reference_tables_agree :
    Gen.projTablesO3 = Gen.stagesO3.map (·.perms) ∧ Gen.projGroupsO3 = Gen.stagesO3.map (·.nPermsGroup) ∧
    Gen.projTablesO4 = (Gen.stagesO4.drop 1).map (·.perms) ∧
    Gen.projTablesO2 = (Gen.stagesO2.drop 1).map (·.perms) := by decide

/-- C11.a: `get_batch_slice(n, b)` with ANY batch size b ≥ 1 tiles [0, n) by consecutive non-empty intervals of
    length ≤ b, in order (b = 0 is Python's `ValueError`, modelled as `none`). -/
theorem batch_slices_tile_the_range (n b : Nat) (hb : 0 < b) :
    ∃ sl, batchSlice n b = some sl ∧
      sl.flatMap (fun p => List.range' p.1 (p.2 - p.1)) = List.range n ∧
      (∀ p ∈ sl, p.1 < p.2 ∧ p.2 - p.1 ≤ b ∧ p.2 ≤ n) ∧ sl.length = (n + b - 1) / b := by
  obtain ⟨sl, h⟩ := batchSlice_isSome (n := n) hb
  exact ⟨sl, h, batchSlice_partition hb h, batchSlice_mem hb h, batchSlice_length hb h⟩

theorem zero_batch_size_is_an_error (n : Nat) : batchSlice n 0 = none := batchSlice_zero n

/-- C11.b: any quantity accumulated batch by batch (Gram matrices `XᵀX`, `Xᵀy`, sum-rule Gram sums, …: any
    associative accumulation with unit) is the same for EVERY two batch sizes — it equals the unbatched total. -/
theorem batched_accumulation_independent_of_batch_size {β} (add : β → β → β) (zero : β)
    (hassoc : ∀ a b c, add (add a b) c = add a (add b c)) (hzero : ∀ a, add zero a = a) (hzero' : ∀ a, add a zero = a)
    (f : Nat → β) (n b₁ b₂ : Nat) (h₁ : 0 < b₁) (h₂ : 0 < b₂) (sl₁ sl₂ : List (Nat × Nat))
    (e₁ : batchSlice n b₁ = some sl₁) (e₂ : batchSlice n b₂ = some sl₂) :
    (sl₁.map (fun p => ((List.range' p.1 (p.2 - p.1)).map f).foldl add zero)).foldl add zero =
    (sl₂.map (fun p => ((List.range' p.1 (p.2 - p.1)).map f).foldl add zero)).foldl add zero := by
  rw [batchSlice_foldl h₁ e₁ add zero hassoc hzero hzero' f, batchSlice_foldl h₂ e₂ add zero hassoc hzero hzero' f]

/-- C11.a: the batch sizes computed by the code are ≥ 1 on their domain: solvers use `N // min(N, k)`; the sum-rule
    projector uses `N^(n-1) · (N // n_batch)` with `1 ≤ n_batch ≤ N`, which moreover is a multiple of N -/
theorem code_batch_sizes_are_positive (N k nb p : Nat) (hN : 1 ≤ N) (hk : 1 ≤ k) (h1 : 1 ≤ nb) (h2 : nb ≤ N) (hp : 1 ≤ p) :
    1 ≤ N / min N k ∧ 0 < N ^ p * (N / nb) ∧ N ∣ N ^ p * (N / nb) :=
  ⟨batch_div_min_pos hN hk, batch_pow_pos h1 h2, batch_pow_dvd hp⟩

/-- C11.b: the chunked accumulation of the coset projector (`cosets[i % n_cosets] += mat; sum(cosets)`) gives the
    same total for every number of chunks ≥ 1 -/
theorem coset_chunk_count_is_irrelevant {α} (add : α → α → α) (zero : α)
    (hassoc : ∀ a b c, add (add a b) c = add a (add b c)) (hcomm : ∀ a b, add a b = add b a)
    (hzero : ∀ a, add zero a = a) (n₁ n₂ : Nat) (h₁ : 1 ≤ n₁) (h₂ : 1 ≤ n₂) (mats : List α) :
    chunkedSum add zero n₁ mats = chunkedSum add zero n₂ mats :=
  chunkedSum_indep add zero hassoc hcomm hzero n₁ n₂ h₁ h₂ mats

/-- C11.b on the model of the solvers themselves: the normal equations do not depend on the atom-batch size nor on the
    snapshot batch size (any positive values, any solver combination). -/
theorem normal_equations_independent_of_batch_sizes (c : Cell) (ods : List OrderData)
    (hods : ∀ od ∈ ods, OrderOK c od) (us fs : List (Array Int)) (hfs : fs.length = us.length)
    (a1 s1 a2 s2 : Nat) (h1 : 0 < a1) (h2 : 0 < s1) (h3 : 0 < a2) (h4 : 0 < s2) :
    normalEqOp c ods us fs a1 s1 = normalEqOp c ods us fs a2 s2 :=
  D3 c ods hods us fs hfs a1 s1 a2 s2 h1 h2 h3 h4

/-- record of the current source: the FC3 reshape guards against a zero batch size, the FC2/FC4 reshapes do not
    (FC4: fewer than 36 stored entries ⇒ `ValueError`, a crash, never a wrong value) -/
theorem reshape_zero_batch_guards : Gen.chainZeroBatchGuarded = [(2, false), (3, true), (4, false)] := by decide

/-! ### C11.e: the eigen-solver path is irrelevant — everything a user sees depends only on the SPAN

The standard and the "large" (block-divided) eigen-solver paths, re-runs, and different batchings of the projector
construction return DIFFERENT eigenvector matrices: eigenvectors of the unit eigenspace are only determined up to an
orthogonal change of basis inside that eigenspace.  What reaches the user is `B Bᵀ`-invariant: the span of the basis
set (equivalently the projector `B Bᵀ`) and the fitted force constants `B c`.  The three theorems below say that
these quantities are functions of the subspace alone. -/
section SpanIndependence
open Matrix

/-- C11.e: two orthonormal bases `B`, `B'` (any numbers of columns `k`, `k'`) of the same subspace define the same
    orthogonal projector `B Bᵀ = B' B'ᵀ`.  Hence whichever eigenvectors the standard / large eigen path, a re-run or a
    different batching returned, the projector onto the admissible force-constant space — the only thing about the
    basis set that downstream quantities depend on — is the same. -/
theorem basis_projector_depends_only_on_the_span {K : Type*} [Field K] {m k k' : Type*}
    [Fintype m] [Fintype k] [Fintype k'] [DecidableEq k] [DecidableEq k']
    (B : Matrix m k K) (B' : Matrix m k' K) (hB : Bᵀ * B = 1) (hB' : B'ᵀ * B' = 1)
    (hrange : ∀ x : m → K, (∃ c : k → K, x = B *ᵥ c) ↔ (∃ c' : k' → K, x = B' *ᵥ c')) :
    B * Bᵀ = B' * B'ᵀ :=
  SpanIndep.same_range_same_projector B B' hB hB' hrange

/-- C11.e: the fitted force constants `B c` (c any solution of the normal equations of the compressed design matrix
    `X B`) are the same for every orthonormal basis of the admissible space: the coefficient vectors `c`, `c'` differ
    (by the orthogonal change of basis) but the user-visible force constants do not.  Injectivity of `X B` is assumed
    for ONE basis only; for the other it follows (`SpanIndep.injective_transfers`). -/
theorem fitted_force_constants_depend_only_on_the_span {K : Type*} [Field K] [LinearOrder K]
    [IsStrictOrderedRing K] {m k k' r : Type*} [Fintype m] [Fintype k] [Fintype k'] [Fintype r]
    [DecidableEq k] [DecidableEq k']
    (B : Matrix m k K) (B' : Matrix m k' K) (hB : Bᵀ * B = 1) (hB' : B'ᵀ * B' = 1)
    (hrange : ∀ x : m → K, (∃ c : k → K, x = B *ᵥ c) ↔ (∃ c' : k' → K, x = B' *ᵥ c'))
    (X : Matrix r m K) (y : r → K) (c : k → K) (c' : k' → K)
    (hc : ((X * B)ᵀ * (X * B)) *ᵥ c = (X * B)ᵀ *ᵥ y)
    (hc' : ((X * B')ᵀ * (X * B')) *ᵥ c' = (X * B')ᵀ *ᵥ y)
    (hinj : Function.Injective (X * B).mulVec) :
    B *ᵥ c = B' *ᵥ c' :=
  SpanIndep.fit_depends_only_on_the_span B B' hB hB' hrange X y c c' hc hc' hinj

/-- C11.e: (i) any two results `W`, `W'` of an eigen-solver path that satisfy the eigen contract `Pipeline.EigBasis M ·`
    (orthonormal columns spanning exactly the eigenvalue-1 eigenspace of `M`) for the same matrix `M` give the same
    projector `W Wᵀ = W' W'ᵀ`; (ii) two complete runs of the basis-set pipeline `B = A W₂ W₃` with arbitrary
    contract-satisfying eigen bases `(W₂, W₃)` resp. `(W₂', W₃')` — note that the second-stage matrix itself depends on
    the first-stage basis — give the same projector `B Bᵀ = B' B'ᵀ`.  So the standard path, the large (block-divided)
    path, re-runs and different batchings are indistinguishable through `B Bᵀ`. -/
theorem either_eigen_path_gives_the_same_projector {K : Type*} [Field K] [LinearOrder K]
    [IsStrictOrderedRing K] :
    (∀ {k k' k'' : Type*} [Fintype k] [Fintype k'] [Fintype k''] [DecidableEq k'] [DecidableEq k'']
      (M : Matrix k k K) (W : Matrix k k' K) (W' : Matrix k k'' K),
      Pipeline.EigBasis M W → Pipeline.EigBasis M W' → W * Wᵀ = W' * W'ᵀ) ∧
    (∀ {m k₁ k₂ k₃ k₂' k₃' r : Type*} [Fintype m] [Fintype k₁] [Fintype k₂] [Fintype k₃] [Fintype k₂']
      [Fintype k₃'] [Fintype r] [DecidableEq m] [DecidableEq k₁] [DecidableEq k₂] [DecidableEq k₃]
      [DecidableEq k₂'] [DecidableEq k₃']
      (A : Matrix m k₁ K) (P : Matrix m m K) (T : Matrix r m K) (ν : K)
      (W₂ : Matrix k₁ k₂ K) (W₃ : Matrix k₂ k₃ K) (W₂' : Matrix k₁ k₂' K) (W₃' : Matrix k₂' k₃' K),
      Aᵀ * A = 1 →
      Pipeline.EigBasis (Aᵀ * P * A) W₂ → Pipeline.EigBasis (Pipeline.sumruleProj (A * W₂) T ν) W₃ →
      Pipeline.EigBasis (Aᵀ * P * A) W₂' → Pipeline.EigBasis (Pipeline.sumruleProj (A * W₂') T ν) W₃' →
      Pᵀ = P → P * P = P → 0 < ν →
      (A * W₂ * W₃) * (A * W₂ * W₃)ᵀ = (A * W₂' * W₃') * (A * W₂' * W₃')ᵀ) :=
  ⟨fun M W W' h h' => SpanIndep.eigen_paths_agree M W W' h h',
   fun A P T ν W₂ W₃ W₂' W₃' hA h₂ h₃ h₂' h₃' hPs hPi hν =>
     SpanIndep.pipeline_paths_agree A P T ν W₂ W₃ W₂' W₃' hA h₂ h₃ h₂' h₃' hPs hPi hν⟩

end SpanIndependence

end Symfc.C11
