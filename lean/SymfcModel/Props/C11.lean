/-
  Props/C11.lean — results do not depend on batching, thresholds or other evaluation paths.
  PROPERTY THEOREMS ONLY.
-/
import SymfcModel.Model.Inst
import SymfcModel.Model.Tables
namespace Symfc.C11
open Symfc

/-- C11 (finding F6 fixed): an explicit `n_batch` binds the batch count of every stage, for every order -/
theorem explicit_n_batch_binds_every_stage :
    Gen.explicitBatchBoundO2 = true ∧ Gen.explicitBatchBoundO3 = true ∧ Gen.explicitBatchBoundO4 = true := by decide

/-- C11.d: fast path and projector reference path use the same arrangement tables and group sizes -/
theorem fast_and_reference_tables_agree :
    Gen.projTablesO3 = Gen.stagesO3.map (·.perms) ∧ Gen.projGroupsO3 = Gen.stagesO3.map (·.nPermsGroup) ∧
    Gen.projTablesO4 = (Gen.stagesO4.drop 1).map (·.perms) ∧
    Gen.projTablesO2 = (Gen.stagesO2.drop 1).map (·.perms) := by decide

end Symfc.C11
