/-
  Props/C11.lean — results do not depend on batching, thresholds or other evaluation paths.
  PROPERTY THEOREMS ONLY.
-/
import SymfcModel.Model.Inst
import SymfcModel.Model.Tables
import SymfcModel.Lemmas.Batch
import SymfcModel.Lemmas.Chunk
import SymfcModel.Lemmas.Design
namespace Symfc.C11
open Symfc

/-- C11 (finding F6 fixed): an explicit `n_batch` binds the batch count of every stage, for every order -/
theorem explicit_n_batch_binds_every_stage :
    Gen.explicitBatchBoundO2 = true ∧ Gen.explicitBatchBoundO3 = true ∧ Gen.explicitBatchBoundO4 = true := by decide

/-- C11.d: fast path and projector reference path use the same arrangement tables and group sizes -/
theorem fast_and_reference_tables_agree :
    Gen.projTablesO3 = Gen.stagesO3.map (·.perms) ∧ Gen.projGroupsO3 = Gen.stagesO3.map (·.nPermsGroup) ∧
    Gen.projTablesO4 = (Gen.stagesO4.drop 1).map (·.perms) ∧
    Gen.projTablesO2 = (Gen.stagesO2.drop 1).map (·.perms) := by decide

/-- C11.a: `get_batch_slice(n, b)` with ANY batch size b ≥ 1 tiles [0, n) by consecutive non-empty intervals of
    length ≤ b, in order (b = 0 is Python's `ValueError`, modelled as `none`). -/
theorem batch_slices_tile_the_range (n b : Nat) (hb : 0 < b) :
    ∃ sl, batchSlice n b = some sl ∧
      sl.flatMap (fun p => List.range' p.1 (p.2 - p.1)) = List.range n ∧
      (∀ p ∈ sl, p.1 < p.2 ∧ p.2 - p.1 ≤ b ∧ p.2 ≤ n) ∧ sl.length = (n + b - 1) / b := by
  obtain ⟨sl, h⟩ := batchSlice_isSome (n := n) hb
  exact ⟨sl, h, batchSlice_partition hb h, batchSlice_mem hb h, batchSlice_length hb h⟩

theorem zero_batch_size_is_an_error (n : Nat) : batchSlice n 0 = none := batchSlice_zero n

/-- C11.b: any quantity accumulated batch by batch (Gram matrices `XᵀX`, `Xᵀy`, sum-rule Gram sums, …: any
    associative accumulation with unit) is the same for EVERY two batch sizes — it equals the unbatched total. -/
theorem batched_accumulation_independent_of_batch_size {β} (add : β → β → β) (zero : β)
    (hassoc : ∀ a b c, add (add a b) c = add a (add b c)) (hzero : ∀ a, add zero a = a) (hzero' : ∀ a, add a zero = a)
    (f : Nat → β) (n b₁ b₂ : Nat) (h₁ : 0 < b₁) (h₂ : 0 < b₂) (sl₁ sl₂ : List (Nat × Nat))
    (e₁ : batchSlice n b₁ = some sl₁) (e₂ : batchSlice n b₂ = some sl₂) :
    (sl₁.map (fun p => ((List.range' p.1 (p.2 - p.1)).map f).foldl add zero)).foldl add zero =
    (sl₂.map (fun p => ((List.range' p.1 (p.2 - p.1)).map f).foldl add zero)).foldl add zero := by
  rw [batchSlice_foldl h₁ e₁ add zero hassoc hzero hzero' f, batchSlice_foldl h₂ e₂ add zero hassoc hzero hzero' f]

/-- C11.a: the batch sizes computed by the code are ≥ 1 on their domain: solvers use `N // min(N, k)`; the sum-rule
    projector uses `N^(n-1) · (N // n_batch)` with `1 ≤ n_batch ≤ N`, which moreover is a multiple of N -/
theorem code_batch_sizes_are_positive (N k nb p : Nat) (hN : 1 ≤ N) (hk : 1 ≤ k) (h1 : 1 ≤ nb) (h2 : nb ≤ N) (hp : 1 ≤ p) :
    1 ≤ N / min N k ∧ 0 < N ^ p * (N / nb) ∧ N ∣ N ^ p * (N / nb) :=
  ⟨batch_div_min_pos hN hk, batch_pow_pos h1 h2, batch_pow_dvd hp⟩

/-- C11.b: the chunked accumulation of the coset projector (`cosets[i % n_cosets] += mat; sum(cosets)`) gives the
    same total for every number of chunks ≥ 1 -/
theorem coset_chunk_count_is_irrelevant {α} (add : α → α → α) (zero : α)
    (hassoc : ∀ a b c, add (add a b) c = add a (add b c)) (hcomm : ∀ a b, add a b = add b a)
    (hzero : ∀ a, add zero a = a) (n₁ n₂ : Nat) (h₁ : 1 ≤ n₁) (h₂ : 1 ≤ n₂) (mats : List α) :
    chunkedSum add zero n₁ mats = chunkedSum add zero n₂ mats :=
  chunkedSum_indep add zero hassoc hcomm hzero n₁ n₂ h₁ h₂ mats

/-- C11.b on the model of the solvers themselves: the normal equations do not depend on the atom-batch size nor on the
    snapshot batch size (any positive values, any solver combination). -/
theorem normal_equations_independent_of_batch_sizes (c : Cell) (ods : List OrderData)
    (hods : ∀ od ∈ ods, OrderOK c od) (us fs : List (Array Int)) (hfs : fs.length = us.length)
    (a1 s1 a2 s2 : Nat) (h1 : 0 < a1) (h2 : 0 < s1) (h3 : 0 < a2) (h4 : 0 < s2) :
    normalEqOp c ods us fs a1 s1 = normalEqOp c ods us fs a2 s2 :=
  D3 c ods hods us fs hfs a1 s1 a2 s2 h1 h2 h3 h4

/-- record of the current source: the FC3 reshape guards against a zero batch size, the FC2/FC4 reshapes do not
    (FC4: fewer than 36 stored entries ⇒ `ValueError`, a crash, never a wrong value) -/
theorem reshape_zero_batch_guards : Gen.chainZeroBatchGuarded = [(2, false), (3, true), (4, false)] := by decide

end Symfc.C11
