/-
  Props/C09.lean — basis vectors are orthonormal and compression is an isometry. PROPERTY THEOREMS ONLY.
-/
import SymfcModel.Model.Eig
import SymfcModel.Gen.Eig
import SymfcModel.Lemmas.LinAlg
import SymfcModel.Lemmas.EigBook
import SymfcModel.Lemmas.Pipeline
import Mathlib.Analysis.Real.Sqrt
namespace Symfc.C09
open Symfc Matrix

variable {K : Type*} [Field K] [LinearOrder K] [IsStrictOrderedRing K]
variable {m n k : Type*} [Fintype m] [Fintype n] [Fintype k]

/-- the two eigen paths are selected by the documented size switch, and the sub-block size of the large path is
    clamped to [1000, 3000] (never 0) -/
theorem eigen_path_switch :
    Gen.eigSizeThreshold = 1000 ∧ Gen.eigTargetDiv = 10 ∧ Gen.eigTargetLo = 1000 ∧ Gen.eigTargetHi = 3000 ∧
    Gen.eigTolExp = 8 := by decide

omit [LinearOrder K] [IsStrictOrderedRing K] in
/-- L1: a matrix whose columns are normalised indicators of disjoint sets — `c_pt` (one entry 1/√count per covered
    row, labelled by its component) and `C_trans` (one entry 1/√n_lp per row, labelled by its translation class) —
    has orthonormal columns: `w j² · |{i : label i = j}| = 1`. -/
theorem normalised_indicator_columns_are_orthonormal [DecidableEq n] [DecidableEq k]
    (label : n → Option k) (w : k → K)
    (hcount : ∀ j, (w j) ^ 2 * ((Finset.univ.filter (fun i => label i = some j)).card : K) = 1) :
    (Matrix.of (fun i j => if label i = some j then w j else 0))ᵀ *
      (Matrix.of (fun i j => if label i = some j then w j else 0)) = (1 : Matrix k k K) :=
  LinAlg.indicator_orthonormal label w hcount

omit [LinearOrder K] [IsStrictOrderedRing K] in
/-- products of matrices with orthonormal columns have orthonormal columns: `C_trans · c_pt · E_R` (compression
    matrix) and `compression · basis_set` (expanded basis) inherit orthonormality from their factors -/
theorem product_of_orthonormal_is_orthonormal [DecidableEq n] [DecidableEq k] (A : Matrix m n K) (B : Matrix n k K)
    (hA : Aᵀ * A = 1) (hB : Bᵀ * B = 1) : (A * B)ᵀ * (A * B) = 1 :=
  LinAlg.orthonormal_mul A B hA hB

omit [LinearOrder K] [IsStrictOrderedRing K] in
/-- the map coefficients ↦ full force constants preserves inner products and norms … -/
theorem expansion_is_an_isometry [DecidableEq n] (A : Matrix m n K) (hA : Aᵀ * A = 1) (v w : n → K) :
    (A *ᵥ v) ⬝ᵥ (A *ᵥ w) = v ⬝ᵥ w :=
  LinAlg.isometry_of_orthonormal A hA v w

omit [LinearOrder K] [IsStrictOrderedRing K] in
/-- … so coefficients are uniquely defined by the force constants -/
theorem coefficients_are_unique [DecidableEq n] (A : Matrix m n K) (hA : Aᵀ * A = 1) :
    Function.Injective A.mulVec :=
  LinAlg.injective_of_orthonormal A hA

/-- the sub-block size used on the large path is positive for every projector size -/
theorem large_path_sub_block_size_positive (p : Nat) :
    0 < targetSize Gen.eigTargetDiv Gen.eigTargetLo Gen.eigTargetHi p := by
  have h := targetSize_bounds_gen Gen.eigTargetDiv Gen.eigTargetLo Gen.eigTargetHi p (by decide)
  have : 0 < Gen.eigTargetLo := by decide
  omega

omit [LinearOrder K] [IsStrictOrderedRing K] in
/-- C09 for the whole pipeline: `B = c_pt · W₂ · W₃` has orthonormal columns whenever `c_pt` has (L1) and the two
    eigen-solver calls return orthonormal eigenvector matrices (eigen contract). -/
theorem pipeline_basis_is_orthonormal {k₁ k₂ k₃ r : Type*} [Fintype k₁] [Fintype k₂] [Fintype k₃] [Fintype r]
    [DecidableEq k₁] [DecidableEq k₂] [DecidableEq k₃]
    (A : Matrix m k₁ K) (P : Matrix m m K) (T : Matrix r m K) (ν : K) (W₂ : Matrix k₁ k₂ K) (W₃ : Matrix k₂ k₃ K)
    (hA : Aᵀ * A = 1) (h₂ : Pipeline.EigBasis (Aᵀ * P * A) W₂)
    (h₃ : Pipeline.EigBasis (Pipeline.sumruleProj (A * W₂) T ν) W₃) :
    (A * W₂ * W₃)ᵀ * (A * W₂ * W₃) = 1 :=
  Pipeline.pipeline_orthonormal A P T ν W₂ W₃ hA h₂ h₃

/-- C09, the weights the code actually uses: `1/√count` (for `c_pt`, count = number of elements of the component;
    for `C_trans`, count = n_lp) satisfies the normalisation hypothesis `w² · count = 1` of L1 over the reals. -/
theorem code_weights_satisfy_the_normalisation (c : ℕ) (hc : 0 < c) : (1 / Real.sqrt (c : ℝ)) ^ 2 * (c : ℝ) = 1 := by
  have h : (0 : ℝ) < c := by exact_mod_cast hc
  rw [div_pow, one_pow, Real.sq_sqrt h.le]
  field_simp

/-- … hence, over ℝ, the normalised indicator matrix of ANY labelling without empty classes, with the code's weights
    `1/√(class size)`, has orthonormal columns (L1 instantiated: `c_pt` and `C_trans` as the code builds them). -/
theorem indicator_matrix_with_the_code_weights_is_orthonormal {n k : Type*} [Fintype n] [Fintype k]
    [DecidableEq n] [DecidableEq k] (label : n → Option k)
    (hne : ∀ j, 0 < (Finset.univ.filter (fun i => label i = some j)).card) :
    (Matrix.of (fun i j => if label i = some j
        then (1 / Real.sqrt ((Finset.univ.filter (fun i' => label i' = some j)).card : ℝ)) else 0))ᵀ *
      (Matrix.of (fun i j => if label i = some j
        then (1 / Real.sqrt ((Finset.univ.filter (fun i' => label i' = some j)).card : ℝ)) else 0)) =
      (1 : Matrix k k ℝ) :=
  LinAlg.indicator_orthonormal label
    (fun j => 1 / Real.sqrt ((Finset.univ.filter (fun i' => label i' = some j)).card : ℝ))
    (fun j => code_weights_satisfy_the_normalisation _ (hne j))

end Symfc.C09
