/-
  Props/C09.lean — basis vectors are orthonormal and compression is an isometry. PROPERTY THEOREMS ONLY.
-/
import SymfcModel.Model.Eig
import SymfcModel.Gen.Eig
namespace Symfc.C09
open Symfc

/-- the two eigen paths are selected by the documented size switch, and the sub-block size of the large path is
    clamped to [1000, 3000] (never 0) -/
theorem eigen_path_switch :
    Gen.eigSizeThreshold = 1000 ∧ Gen.eigTargetDiv = 10 ∧ Gen.eigTargetLo = 1000 ∧ Gen.eigTargetHi = 3000 ∧
    Gen.eigTolExp = 8 := by decide

end Symfc.C09
