/-
  Props/C08.lean — compact and full outputs describe the same tensor. PROPERTY THEOREMS ONLY.
  The full tensor is `compact[decompr_idx] / …`: entry (atoms, cart) of the full array reads the compact
  (class-space) array at `atomicDecompr[flat atoms] · 3ⁿ + flat cart` (`latTransDecompr`).
-/
import SymfcModel.Model.Inst
import SymfcModel.Lemmas.Cell
import Mathlib.Data.Matrix.Mul
namespace Symfc.C08
open Symfc Symfc.Cell

/-- the element index used by the permutation stage is row-major over (atom tuple | Cartesian tuple):
    strides N^(n-1-p) and 3^(n-1-p) at position p, for every order -/
theorem element_index_is_row_major :
    Gen.idxStridesO2 = [(1, 3), (0, 1)] ∧ Gen.idxStridesO3 = [(2, 9), (1, 3), (0, 1)] ∧
    Gen.idxStridesO4 = [(3, 27), (2, 9), (1, 3), (0, 1)] := by decide

/-- C08.a: the class index of a tuple whose FIRST atom is the m-th independent atom (p2s_map[m]) is
    `m·N^(n−1) + flat(rest)`: block `m` of the compact array IS the slice `full[p2s_map[m], …]` — compact equals the
    full tensor restricted to the independent atoms, in that order, for every order n ≥ 1 and every well-formed cell. -/
theorem compact_block_m_is_full_restricted_to_p2s_m (c : Cell) (hwf : c.wf = true) (n : Nat) (hn : 1 ≤ n)
    (m : Nat) (hm : m < c.indepAtoms.length) (rest : List Nat) (hlen : rest.length = n - 1)
    (hlt : ∀ x, x ∈ rest → x < c.N) :
    (c.atomicDecompr n).getD (flat c.N (c.indepAtoms[m] :: rest)) 0 = m * c.N ^ (n - 1) + flat c.N rest :=
  atomicDecompr_compact c hwf n hn m hm rest hlen hlt

/-- C08.b: the full tensor is recovered from the compact one BY LATTICE TRANSLATIONS: translating every atom of a
    tuple by the same lattice translation does not change which compact entry is read … -/
theorem full_tensor_is_translation_invariant (c : Cell) (hwf : c.wf = true) (n : Nat) (hn : 1 ≤ n)
    (atoms : List Nat) (hlen : atoms.length = n) (hlt : ∀ x, x ∈ atoms → x < c.N) (l : Nat) (hl : l < c.nlp) :
    (c.atomicDecompr n).getD (flat c.N (atoms.map (c.img l))) 0 = (c.atomicDecompr n).getD (flat c.N atoms) 0 :=
  atomicDecompr_translate c hwf n hn atoms hlen hlt l hl

/-- … and two tuples read the same compact entry ONLY IF they are lattice translates of each other (no two
    inequivalent elements are merged), every compact entry is read by exactly `n_lp` tuples, and the compact array has
    `n_a · N^(n−1) = Nⁿ / n_lp` atom blocks. -/
theorem classes_are_exactly_translation_orbits (c : Cell) (hwf : c.wf = true) (n : Nat) (hn : 1 ≤ n)
    (a b : List Nat) (halen : a.length = n) (halt : ∀ x, x ∈ a → x < c.N)
    (hblen : b.length = n) (hblt : ∀ x, x ∈ b → x < c.N) :
    ((c.atomicDecompr n).getD (flat c.N a) 0 = (c.atomicDecompr n).getD (flat c.N b) 0 ↔
      ∃ l, l < c.nlp ∧ b = a.map (c.img l)) ∧
    (c.atomicDecompr n).getD (flat c.N a) 0 < c.indepAtoms.length * c.N ^ (n - 1) ∧
    c.indepAtoms.length * c.N ^ (n - 1) = c.N ^ n / c.nlp :=
  ⟨atomicDecompr_eq_iff c hwf n hn a b halen halt hblen hblt, atomicDecompr_lt c hwf n hn a halen halt,
   num_classes_eq c hwf n hn⟩

/-- the closed-form class index used in the specification agrees with the loop-built array of the code's model -/
theorem closed_form_class_index (c : Cell) (hwf : c.wf = true) (n : Nat) (hn : 1 ≤ n)
    (atoms : List Nat) (hlen : atoms.length = n) (hlt : ∀ x, x ∈ atoms → x < c.N) :
    classIdx c atoms = some ((c.atomicDecompr n).getD (flat c.N atoms) 0) :=
  classIdx_eq c hwf n hn atoms hlen hlt

/-- element level: entry `t = flat(atoms)·3ⁿ + cart` of `get_lat_trans_decompr_indices*` is the class of the atoms
    times 3ⁿ plus the SAME Cartesian offset: Cartesian components are never mixed by compression. -/
theorem element_decompr_keeps_cartesian (c : Cell) (n t : Nat) (ht : t < c.N ^ n * 3 ^ n) :
    (c.latTransDecompr n).getD t 0 = (c.atomicDecompr n).getD (t / 3 ^ n) 0 * 3 ^ n + t % 3 ^ n := by
  unfold latTransDecompr
  simp [Array.getD, ht]

/-- C08, matrix level: `compression_matrix = C_trans · n_a` with `C_trans` the indicator of the decompression map `D`
    (full element ↦ class) times a weight `w` (the code: `1/√n_lp`), and `compact_compression_matrix = w' · n_a` (the
    code: the SAME `1/√n_lp`, extracted as `accessorFresh`). Every row of the full matrix is `w` times the row of `n_a`
    at the element's class — so with `w = w'` the full tensor at element `e` IS the compact tensor at row `D e`, and by
    `compact_block_m_is_full_restricted_to_p2s_m` the rows of the m-th compact block are the rows of the full tensor whose
    first atom is `p2s_map[m]`. -/
theorem full_row_is_the_scaled_row_of_its_class {K n k x : Type*} [Semiring K] [Fintype k] [DecidableEq k]
    (D : n → k) (w : K) (M : Matrix k x K) (e : n) (c : x) :
    ((Matrix.of (fun (i : n) (j : k) => if D i = j then w else 0)) * M) e c = w * M (D e) c := by
  simp [Matrix.mul_apply, Matrix.of_apply, ite_mul, Finset.sum_ite_eq]

/-- … hence full and compact outputs agree element by element for every coefficient vector. -/
theorem full_output_is_the_compact_output_at_the_class {K n k x : Type*} [Semiring K] [Fintype k] [Fintype x]
    [DecidableEq k] (D : n → k) (w : K) (NA : Matrix k x K) (coef : x → K) (e : n) :
    (((Matrix.of (fun (i : n) (j : k) => if D i = j then w else 0)) * NA).mulVec coef) e =
      ((w • NA).mulVec coef) (D e) := by
  simp only [Matrix.mulVec, dotProduct, full_row_is_the_scaled_row_of_its_class, Matrix.smul_apply, smul_eq_mul]

end Symfc.C08
