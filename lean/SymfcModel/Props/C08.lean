/-
  Props/C08.lean — compact and full outputs describe the same tensor. PROPERTY THEOREMS ONLY.
-/
import SymfcModel.Model.Inst
namespace Symfc.C08
open Symfc

/-- the element index used by the permutation stage is row-major over (atom tuple | Cartesian tuple):
    strides N^(n-1-p) and 3^(n-1-p) at position p, for every order -/
theorem element_index_is_row_major :
    Gen.idxStridesO2 = [(1, 3), (0, 1)] ∧ Gen.idxStridesO3 = [(2, 9), (1, 3), (0, 1)] ∧
    Gen.idxStridesO4 = [(3, 27), (2, 9), (1, 3), (0, 1)] := by decide

end Symfc.C08
