/-
  Props/C14.lean — atom permutations and rotation matrices faithfully represent the space group.
  PROPERTY THEOREMS ONLY.
-/
import SymfcModel.Model.Cell
namespace Symfc.C14
open Symfc

/-- non-vacuity witness used by the theorems of this file: a shuffled 2×2 lattice with two basis atoms is a
    well-formed cell (free translation group of order 4 on 8 atoms, identity first) and its independent atoms are
    the lowest atoms of the two orbits -/
def demoCell : Cell :=
  { N := 8, tp := #[#[0,1,2,3,4,5,6,7], #[2,3,0,1,6,7,4,5], #[1,0,3,2,5,4,7,6], #[3,2,1,0,7,6,5,4]] }

theorem demoCell_wf : demoCell.wf = true ∧ demoCell.indepAtoms = [0, 4] := by decide +kernel

end Symfc.C14
