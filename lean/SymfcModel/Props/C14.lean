/-
  Props/C14.lean — atom permutations and rotation matrices faithfully represent the space group.
  PROPERTY THEOREMS ONLY (the combinatorial core: lattice translations act freely, p2s_map).
-/
import SymfcModel.Lemmas.Cell
namespace Symfc.C14
open Symfc Symfc.Cell

/-- non-vacuity witness: a shuffled 2×2 lattice with two basis atoms is a well-formed cell (free translation group of
    order 4 on 8 atoms, identity first) and its independent atoms are the lowest atoms of the two orbits -/
def demoCell : Cell :=
  { N := 8, tp := #[#[0,1,2,3,4,5,6,7], #[2,3,0,1,6,7,4,5], #[1,0,3,2,5,4,7,6], #[3,2,1,0,7,6,5,4]] }

theorem demoCell_wf : demoCell.wf = true ∧ demoCell.indepAtoms = [0, 4] := by decide +kernel

/-- C14.a: for every well-formed translation table (rows = permutations, identity first, closed under composition,
    distinct rows differ at every atom) the pure lattice translations form a GROUP of `n_lp` fixed-point-free
    permutations: closed, with inverses, each row a bijection of the atoms. -/
theorem translations_form_a_free_group (c : Cell) (hwf : c.wf = true) :
    0 < c.nlp ∧
    (∀ l i, l < c.nlp → i < c.N → c.img l i < c.N) ∧
    (∀ i, i < c.N → c.img 0 i = i) ∧
    (∀ l i j, l < c.nlp → i < c.N → j < c.N → c.img l i = c.img l j → i = j) ∧
    (∀ l j, l < c.nlp → j < c.N → ∃ i, i < c.N ∧ c.img l i = j) ∧
    (∀ l m, l < c.nlp → m < c.nlp → ∃ k, k < c.nlp ∧ ∀ i, i < c.N → c.img k i = c.img l (c.img m i)) ∧
    (∀ l m, l < c.nlp → m < c.nlp → l ≠ m → ∀ i, i < c.N → c.img l i ≠ c.img m i) ∧
    (∀ l, l < c.nlp → ∃ k, k < c.nlp ∧ ∀ i, i < c.N → c.img k (c.img l i) = i ∧ c.img l (c.img k i) = i) :=
  wf_group_facts c hwf

/-- C14.a: every atom orbit under lattice translations has exactly `n_lp` members -/
theorem every_orbit_has_nlp_members (c : Cell) (hwf : c.wf = true) (i : Nat) (hi : i < c.N) :
    (orbitList c i).Nodup ∧ (orbitList c i).length = c.nlp ∧ (∀ j, j ∈ orbitList c i ↔ sameOrbit c i j) :=
  let h := (sameOrbit_equiv c hwf).2.2.2.2 i hi
  ⟨h.1, h.2.1, h.2.2.1⟩

/-- C14.a: `p2s_map` (= `get_indep_atoms_by_lat_trans`) lists, in increasing order, EXACTLY ONE atom of each
    orbit, namely its LOWEST-index atom; and `N = n_a · n_lp`. -/
theorem p2s_map_is_one_lowest_atom_per_orbit (c : Cell) (hwf : c.wf = true) :
    (c.indepAtoms.Pairwise (· < ·) ∧ ∀ a, a ∈ c.indepAtoms → a < c.N) ∧
    (∀ i, i < c.N → ∃ a, (a ∈ c.indepAtoms ∧ sameOrbit c a i) ∧
        ∀ b, (b ∈ c.indepAtoms ∧ sameOrbit c b i) → b = a) ∧
    (∀ a, a ∈ c.indepAtoms → ∀ l, l < c.nlp → a ≤ c.img l a) ∧
    c.N = c.indepAtoms.length * c.nlp :=
  indepAtoms_spec c hwf

end Symfc.C14
