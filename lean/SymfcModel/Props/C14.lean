/-
  Props/C14.lean — atom permutations and rotation matrices faithfully represent the space group.
  PROPERTY THEOREMS ONLY (the combinatorial core: lattice translations act freely, p2s_map).
-/
import SymfcModel.Lemmas.Cell
import SymfcModel.Lemmas.SgPerm
import SymfcModel.Lemmas.SgPermFull
namespace Symfc.C14
open Symfc Symfc.Cell

/-- non-vacuity witness: a shuffled 2×2 lattice with two basis atoms is a well-formed cell (free translation group of
    order 4 on 8 atoms, identity first) and its independent atoms are the lowest atoms of the two orbits -/
def demoCell : Cell :=
  { N := 8, tp := #[#[0,1,2,3,4,5,6,7], #[2,3,0,1,6,7,4,5], #[1,0,3,2,5,4,7,6], #[3,2,1,0,7,6,5,4]] }

theorem demoCell_wf : demoCell.wf = true ∧ demoCell.indepAtoms = [0, 4] := by decide +kernel

/-- C14.a: for every well-formed translation table (rows = permutations, identity first, closed under composition,
    distinct rows differ at every atom) the pure lattice translations form a GROUP of `n_lp` fixed-point-free
    permutations: closed, with inverses, each row a bijection of the atoms. -/
theorem translations_form_a_free_group (c : Cell) (hwf : c.wf = true) :
    0 < c.nlp ∧
    (∀ l i, l < c.nlp → i < c.N → c.img l i < c.N) ∧
    (∀ i, i < c.N → c.img 0 i = i) ∧
    (∀ l i j, l < c.nlp → i < c.N → j < c.N → c.img l i = c.img l j → i = j) ∧
    (∀ l j, l < c.nlp → j < c.N → ∃ i, i < c.N ∧ c.img l i = j) ∧
    (∀ l m, l < c.nlp → m < c.nlp → ∃ k, k < c.nlp ∧ ∀ i, i < c.N → c.img k i = c.img l (c.img m i)) ∧
    (∀ l m, l < c.nlp → m < c.nlp → l ≠ m → ∀ i, i < c.N → c.img l i ≠ c.img m i) ∧
    (∀ l, l < c.nlp → ∃ k, k < c.nlp ∧ ∀ i, i < c.N → c.img k (c.img l i) = i ∧ c.img l (c.img k i) = i) :=
  wf_group_facts c hwf

/-- C14.a: every atom orbit under lattice translations has exactly `n_lp` members -/
theorem every_orbit_has_nlp_members (c : Cell) (hwf : c.wf = true) (i : Nat) (hi : i < c.N) :
    (orbitList c i).Nodup ∧ (orbitList c i).length = c.nlp ∧ (∀ j, j ∈ orbitList c i ↔ sameOrbit c i j) :=
  let h := (sameOrbit_equiv c hwf).2.2.2.2 i hi
  ⟨h.1, h.2.1, h.2.2.1⟩

/-- C14.a: `p2s_map` (= `get_indep_atoms_by_lat_trans`) lists, in increasing order, EXACTLY ONE atom of each
    orbit, namely its LOWEST-index atom; and `N = n_a · n_lp`. -/
theorem p2s_map_is_one_lowest_atom_per_orbit (c : Cell) (hwf : c.wf = true) :
    (c.indepAtoms.Pairwise (· < ·) ∧ ∀ a, a ∈ c.indepAtoms → a < c.N) ∧
    (∀ i, i < c.N → ∃ a, (a ∈ c.indepAtoms ∧ sameOrbit c a i) ∧
        ∀ b, (b ∈ c.indepAtoms ∧ sameOrbit c b i) → b = a) ∧
    (∀ a, a ∈ c.indepAtoms → ∀ l, l < c.nlp → a ≤ c.img l a) ∧
    c.N = c.indepAtoms.length * c.nlp :=
  indepAtoms_spec c hwf

/-- C14.c (exact-arithmetic core of the atom matching): coordinates are reduced to the representative in
    [-1/2, 1/2) of their class modulo the lattice, independent of integer offsets -/
theorem wrapped_coordinate_is_the_class_representative (S x k : Int) (hS : 0 < S) (hev : S % 2 = 0) :
    (-(S / 2) ≤ wrapHalf S x ∧ wrapHalf S x < S / 2) ∧ wrapHalf S (x + k * S) = wrapHalf S x ∧
    (wrapHalf S x - x) % S = 0 :=
  ⟨wrapHalf_range S x hS hev, wrapHalf_add_mul S x k, wrapHalf_sub_emod S x⟩

/-- C14.c FAST PATH, soundness: whenever the sort-and-compare fast path of the pure-translation loop accepts, the
    permutation it returns is a bijection of the atoms and sends atom i to THE atom whose position equals
    x_i + t modulo the lattice (unique because rounded positions are pairwise distinct). -/
theorem fast_path_permutation_is_the_translation (S : Int) (ps : List (List Int)) (t : List Int) (tp : List Nat)
    (hd : positionsDistinct S ps = true) (h : fastTransPerm S ps t = some tp) :
    (tp.length = ps.length ∧ tp.Perm (List.range ps.length)) ∧
    (∀ i, i < ps.length →
      roundPos S (ps.getD (tp.getD i 0) []) = roundPos S (((ps.getD i []).zip t).map (fun (a, b) => a + b))) ∧
    (∀ i, i < ps.length → ∀ j, j < ps.length →
      roundPos S (ps.getD j []) = roundPos S (((ps.getD i []).zip t).map (fun (a, b) => a + b)) → j = tp.getD i 0) :=
  ⟨fastTransPerm_perm S ps t tp h, fun i hi => fastTransPerm_spec S ps t tp h i hi,
   fun i hi j hj hij => fastTransPerm_unique S ps t tp hd h i hi j hj hij⟩

/-- C14.c FAST PATH, completeness: if the translation IS a symmetry of the set of positions (some permutation σ
    realises it) the fast path accepts and returns exactly σ — the distance fall-back is needed only for inputs that
    are not exactly periodic at the chosen number of decimals. -/
theorem fast_path_accepts_every_exact_symmetry (S : Int) (ps : List (List Int)) (t : List Int) (σ : List Nat)
    (hd : positionsDistinct S ps = true) (hσ : σ.Perm (List.range ps.length))
    (hsym : ∀ i, i < ps.length →
      roundPos S (ps.getD (σ.getD i 0) []) = roundPos S (((ps.getD i []).zip t).map (fun (a, b) => a + b))) :
    fastTransPerm S ps t = some σ :=
  fastTransPerm_complete S ps t σ hd hσ hsym

/-- C14.b COMPOSITION: `out = trans_perms[l][perm_u]` represents "first the operation of the unique rotation, then the
    lattice translation": if `perm` sends atom j to the atom located at g(x_j) and `tp` sends atom k to the atom at
    τ(x_k), the composed array sends atom j to the atom at τ(g(x_j)); and it is again a permutation. -/
theorem composed_permutation_represents_the_composed_operation {α : Type} (loc : Nat → α) (g τ : α → α)
    (tp perm : List Nat) (N : Nat) (hperm : perm.length = N) (htp : tp.length = N)
    (hrange : ∀ j, j < N → perm.getD j 0 < N)
    (hg : ∀ j, j < N → loc (perm.getD j 0) = g (loc j))
    (hτ : ∀ j, j < N → loc (tp.getD j 0) = τ (loc j)) :
    ∀ j, j < N → loc ((composeOut tp perm).getD j 0) = τ (g (loc j)) :=
  composeOut_represents loc g τ tp perm N hperm htp hrange hg hτ

theorem composed_permutation_is_a_permutation (tp perm : List Nat) (N : Nat)
    (htp : tp.Perm (List.range N)) (hperm : perm.Perm (List.range N)) :
    (composeOut tp perm).Perm (List.range N) :=
  composeOut_perm tp perm N htp hperm

open SgPermFull in
/-- C14 MAIN on the full exact-arithmetic model of `compute_sg_permutations` (`Model/SgPermFull.lean`: pure-translation
    loop with fast path and exact matching, first-occurrence scan of the unique rotations, matching of the rotated
    positions, lookup of the lattice translation `t_i − t_first(i)`, composition `trans_perms[l][perms]`): if the
    positions are pairwise distinct modulo the lattice, every listed operation maps the set of positions onto itself,
    and for every operation the translation relative to the first operation with the same rotation is exactly one of
    the listed pure translations (true when the operations form a group), then the function returns a table whose
    every row is a permutation of the atoms and sends atom a to THE atom located at `R_i x_a + t_i`. -/
theorem sg_permutations_represent_every_operation (S : Int) (ps : List (List Int))
    (rots : List (List (List Int))) (trans : List (List Int))
    (hps : ∀ p ∈ ps, p.length = 3) (hrots : ∀ R ∈ rots, R.length = 3) (htrans : ∀ t ∈ trans, t.length = 3)
    (hn : rots.length = trans.length)
    (hd : positionsDistinct S ps = true)
    (hinto : ∀ i, i < rots.length → ∀ a, a < ps.length → ∃ b, b < ps.length ∧
      Cong S (ps.getD b []) (applyOp S (rots.getD i []) (trans.getD i []) (ps.getD a [])))
    (honto : ∀ i, i < rots.length → ∀ b, b < ps.length → ∃ a, a < ps.length ∧
      Cong S (ps.getD b []) (applyOp S (rots.getD i []) (trans.getD i []) (ps.getD a [])))
    (hlat : ∀ i, i < rots.length → ∃ l, l < (pureTranslations rots trans).length ∧
      Cong S ((pureTranslations rots trans).getD l [])
        (subVec (trans.getD i []) (trans.getD (firstOp rots i) [])) ∧
      ∀ l', l' < (pureTranslations rots trans).length →
        Cong S ((pureTranslations rots trans).getD l' [])
          (subVec (trans.getD i []) (trans.getD (firstOp rots i) [])) → l' = l) :
    ∃ out, sgPermutations S ps rots trans = some out ∧ out.length = rots.length ∧
      ∀ i, i < rots.length → (out.getD i []).Perm (List.range ps.length) ∧
        ∀ a, a < ps.length → Cong S (ps.getD ((out.getD i []).getD a 0) [])
          (applyOp S (rots.getD i []) (trans.getD i []) (ps.getD a [])) :=
  sgPermutations_represents_every_operation S ps rots trans hps hrots htrans hn hd hinto honto hlat

open SgPermFull in
/-- C14: … and the table is a HOMOMORPHISM: whenever operation k of the list is the product of operations i and j
    (`R_k = R_i R_j`, `t_k ≡ R_i t_j + t_i`), `perm_k = perm_i ∘ perm_j`. -/
theorem sg_permutations_compose_like_the_operations (S : Int) (ps : List (List Int))
    (rots : List (List (List Int))) (trans : List (List Int))
    (hps : ∀ p ∈ ps, p.length = 3) (hrots : ∀ R ∈ rots, R.length = 3)
    (hrows : ∀ R ∈ rots, ∀ row ∈ R, row.length = 3) (htrans : ∀ t ∈ trans, t.length = 3)
    (hn : rots.length = trans.length)
    (hd : positionsDistinct S ps = true)
    (hinto : ∀ i, i < rots.length → ∀ a, a < ps.length → ∃ b, b < ps.length ∧
      Cong S (ps.getD b []) (applyOp S (rots.getD i []) (trans.getD i []) (ps.getD a [])))
    (honto : ∀ i, i < rots.length → ∀ b, b < ps.length → ∃ a, a < ps.length ∧
      Cong S (ps.getD b []) (applyOp S (rots.getD i []) (trans.getD i []) (ps.getD a [])))
    (hlat : ∀ i, i < rots.length → ∃ l, l < (pureTranslations rots trans).length ∧
      Cong S ((pureTranslations rots trans).getD l [])
        (subVec (trans.getD i []) (trans.getD (firstOp rots i) [])) ∧
      ∀ l', l' < (pureTranslations rots trans).length →
        Cong S ((pureTranslations rots trans).getD l' [])
          (subVec (trans.getD i []) (trans.getD (firstOp rots i) [])) → l' = l)
    (out : List (List Nat)) (hout : sgPermutations S ps rots trans = some out)
    (i j k : Nat) (hi : i < rots.length) (hj : j < rots.length) (hk : k < rots.length)
    (hR : rots.getD k [] = matMul3 (rots.getD i []) (rots.getD j []))
    (ht : Cong S (trans.getD k []) (applyOp S (rots.getD i []) (trans.getD i []) (trans.getD j []))) :
    ∀ a, a < ps.length → (out.getD k []).getD a 0 = (out.getD i []).getD ((out.getD j []).getD a 0) 0 :=
  homomorphism S ps rots trans hps hrots hrows htrans hn hd hinto honto hlat out hout i j k hi hj hk hR ht

open SgPermFull in
/-- C14: exact matching (the distance fall-back and the rotation matching on exactly periodic inputs) is sound and
    complete: it returns σ iff σ is the permutation with `x_{σ i} ≡ y_i`. -/
theorem exact_matching_is_sound_and_complete (S : Int) (d : Nat) (ps qs : List (List Int)) (σ : List Nat)
    (hps : ∀ x ∈ ps, x.length = d) (hqs : ∀ x ∈ qs, x.length = d) (hlen : qs.length = ps.length)
    (hd : positionsDistinct S ps = true) :
    exactMatch S ps qs = some σ ↔
      (σ.Perm (List.range ps.length) ∧ ∀ i, i < ps.length → Cong S (ps.getD (σ.getD i 0) []) (qs.getD i [])) :=
  ⟨fun h => let r := B1_exactMatch_sound S d ps qs σ hps hqs hlen hd h; ⟨r.2.1, r.2.2.1⟩,
   fun h => B2_exactMatch_complete S d ps qs σ hps hlen hd h.1 h.2⟩

/-- non-vacuity: on a concrete structure (N = 4, two lattice points × two basis atoms, S = 8) with the four operations
    {identity, lattice translation, an inversion, their product} the hypotheses above hold and the model evaluates to
    an explicit table -/
theorem sg_permutations_demo :
    sgPermutations 8 SgPermFull.demoPs SgPermFull.demoRots SgPermFull.demoTrans =
      some [[0, 1, 2, 3], [1, 0, 3, 2], [2, 3, 0, 1], [3, 2, 1, 0]] := SgPermFull.demo_eval

end Symfc.C14
