/-
  Props/C16.lean — invalid requests are rejected instead of producing partial or stale results.
  PROPERTY THEOREMS ONLY. `genApiCfg` is what tools/extract.py read off api_symfc.py on this run.
-/
import SymfcModel.Lemmas.Api
namespace Symfc.C16
open Symfc

/-- the six supported combinations -/
def supported : List (List Nat) := [[2], [3], [4], [2, 3], [3, 4], [2, 3, 4]]

/-- C16.a: what the translator extracted IS the documented whitelist (orders 2,3,4,2-3,3-4,2-3-4; max_order 2..4),
    every dispatch branch reads exactly the basis sets and writes exactly the keys of its orders, after the
    solver has returned, and both validations run before anything else. -/
theorem extracted_interface_is_the_documented_one :
    genApiCfg.ordersWhitelist = supported ∧ genApiCfg.maxOrderWhitelist = [2, 3, 4] ∧
    genApiCfg.branches.map (·.orders) = supported ∧
    genApiCfg.branches.all (fun b => b.fcKeys == b.orders && b.basisKeys == b.orders && b.writesAfter) = true ∧
    genApiCfg.checksFirst = true ∧ genApiCfg.runGuarded = true ∧
    genApiCfg.guards.contains .dispNone ∧ genApiCfg.guards.contains .forcesNone ∧
    genApiCfg.guards.contains .shapeMismatch ∧ genApiCfg.guards.contains .dispShape ∧
    genApiCfg.guards.contains .forcesShape := by
  decide

/-- C16.a: an `orders` list (ANY list: duplicates, unsorted, empty, containing 0/1/5 …) is accepted iff its sorted
    version is one of the six tuples; the accepted value is that tuple. -/
theorem checkOrders_orders_iff (os s : List Nat) :
    checkOrders genApiCfg none (some os) = .ok s ↔ (s = sortNat os ∧ sortNat os ∈ supported) := by
  have hw : genApiCfg.ordersWhitelist = supported := by decide
  unfold checkOrders
  simp only [hw]
  by_cases h : supported.contains (sortNat os) = true
  · simp only [h, if_true]
    constructor
    · intro e; cases e; exact ⟨rfl, by simpa using h⟩
    · intro ⟨e, _⟩; rw [e]
  · simp only [h]
    constructor
    · intro e; cases e
    · intro ⟨_, hm⟩; exact absurd (by simpa using hm) h

/-- an accepted list is a rearrangement of one of the six tuples — hence has no duplicates and no foreign order -/
theorem accepted_orders_are_permutations (os s : List Nat)
    (h : checkOrders genApiCfg none (some os) = .ok s) : s ∈ supported ∧ s.Perm os := by
  obtain ⟨e, hm⟩ := (checkOrders_orders_iff os s).mp h
  subst e
  exact ⟨hm, sortNat_perm os⟩

/-- C16.a: `max_order` outside 2..4 is rejected whatever `orders` says; inside, it means `(2..m)` -/
theorem checkOrders_maxOrder (m : Nat) (o : Option (List Nat)) :
    checkOrders genApiCfg (some m) o =
      if m = 2 ∨ m = 3 ∨ m = 4 then .ok ((List.range (m + 1)).drop 2) else .error .badMaxOrder := by
  have hw : genApiCfg.maxOrderWhitelist = [2, 3, 4] := by decide
  unfold checkOrders
  simp only [hw]
  by_cases h : m = 2 ∨ m = 3 ∨ m = 4
  · rcases h with h | h | h <;> subst h <;> simp
  · have : ([2, 3, 4] : List Nat).contains m = false := by
      simp only [not_or] at h
      simp [h.1, h.2.1, h.2.2]
    simp [this, h]

/-- C16.a: `max_order = m` is equivalent to `orders = [2..m]` (and to any rearrangement of it) -/
theorem maxOrder_equiv_orders :
    checkOrders genApiCfg (some 2) none = checkOrders genApiCfg none (some [2]) ∧
    checkOrders genApiCfg (some 3) none = checkOrders genApiCfg none (some [2, 3]) ∧
    checkOrders genApiCfg (some 3) none = checkOrders genApiCfg none (some [3, 2]) ∧
    checkOrders genApiCfg (some 4) none = checkOrders genApiCfg none (some [2, 3, 4]) ∧
    checkOrders genApiCfg (some 4) none = checkOrders genApiCfg none (some [4, 2, 3]) := by
  refine ⟨?_, ?_, ?_, ?_, ?_⟩ <;> rfl

theorem no_specification_rejected : checkOrders genApiCfg none none = .error .noOrders := rfl

/-- C16.b: a rejected `solve` (any failing guard, invalid orders, missing basis set) leaves the WHOLE state,
    in particular every stored force constant, exactly as it was — for every state, i.e. at any point of any history. -/
theorem rejected_solve_changes_nothing (s : ApiState) (m : Option Nat) (o : Option (List Nat)) (c : Bool) (e : ApiErr)
    (h : (solveStep genApiCfg s m o c).2 = some e) : (solveStep genApiCfg s m o c).1 = s :=
  solveStep_err_unchanged genApiCfg s m o c e h

/-- C16.b: every guard that fails is an error of `solve` -/
theorem failing_guard_rejects (s : ApiState) (m : Option Nat) (o : Option (List Nat)) (c : Bool) (e : ApiErr)
    (h : checkDataset genApiCfg s = some e) : solveStep genApiCfg s m o c = (s, some e) := by
  unfold solveStep; simp [h]

theorem invalid_orders_reject (s : ApiState) (m : Option Nat) (o : Option (List Nat)) (c : Bool) (e : ApiErr)
    (hd : checkDataset genApiCfg s = none) (h : checkOrders genApiCfg m o = .error e) :
    solveStep genApiCfg s m o c = (s, some e) := by
  unfold solveStep; simp [hd, h]

/-- missing displacements / forces / disagreeing shapes ARE failing guards (on the extracted guard list) -/
theorem missing_or_misshapen_dataset_fails (s : ApiState) :
    (s.disp = none → checkDataset genApiCfg s ≠ none) ∧
    (s.forces = none → checkDataset genApiCfg s ≠ none) ∧
    (∀ d f, s.disp = some d → s.forces = some f → d.shape ≠ f.shape → checkDataset genApiCfg s ≠ none) ∧
    (∀ d, s.disp = some d → (d.shape.length ≠ 3 ∨ d.shape.drop 1 ≠ [s.natom, 3]) → checkDataset genApiCfg s ≠ none) := by
  have hg : genApiCfg.guards = [.dispNone, .forcesNone, .shapeMismatch, .shapeMismatch, .dispShape, .forcesShape] := by
    decide
  refine ⟨?_, ?_, ?_, ?_⟩
  · intro h; unfold checkDataset; rw [hg]; simp [List.findSome?, guardFails, h]
  · intro h; unfold checkDataset; rw [hg]
    cases hd : s.disp <;> simp [List.findSome?, guardFails, h, hd]
  · intro d f hd hf hne; unfold checkDataset; rw [hg]
    simp [List.findSome?, guardFails, hd, hf, hne]
  · intro d hd hbad; unfold checkDataset; rw [hg]
    cases hf : s.forces with
    | none => simp [List.findSome?, guardFails, hd, hf]
    | some f =>
      by_cases hsh : d.shape = f.shape
      · rw [hsh] at hbad
        have hbad' : ¬f.shape.length = 3 ∨ ¬f.shape.tail = [s.natom, 3] := by
          rcases hbad with hb | hb
          · exact Or.inl hb
          · exact Or.inr (by simpa [List.drop_one] using hb)
        simp [List.findSome?, guardFails, hd, hf, hsh, hbad']
      · simp [List.findSome?, guardFails, hd, hf, hsh]

/-- C16.b: `run` without a dataset is a no-op -/
theorem run_without_dataset_is_noop (s : ApiState) (m : Option Nat) (o : Option (List Nat)) (c : Bool)
    (h : s.disp = none ∨ s.forces = none) : step genApiCfg s (.run m o c) = (s, none) := by
  have hr : genApiCfg.runGuarded = true := by decide
  unfold step
  rcases h with h | h <;> simp [hr, h]

/-- C16.b: on success exactly the requested keys are (re)written, every other key keeps its old value -/
theorem successful_solve_writes_exactly_requested (s : ApiState) (m : Option Nat) (o : Option (List Nat)) (c : Bool)
    (os : List Nat) (ho : checkOrders genApiCfg m o = .ok os)
    (hs : (solveStep genApiCfg s m o c).1 ≠ s) (k : Nat) :
    (k ∈ os → ∃ v, dictGet (solveStep genApiCfg s m o c).1.fc k = some v ∧ v.order = k ∧ v.orders = os) ∧
    (k ∉ os → dictGet (solveStep genApiCfg s m o c).1.fc k = dictGet s.fc k) := by
  rcases solveStep_cases genApiCfg s m o c with h1 | ⟨os', b, bases, d, f, _, ho', hb, _, _, _, _, h8⟩
  · exact absurd h1 hs
  · rw [ho] at ho'; cases ho'
    have hbm : b ∈ genApiCfg.branches := List.mem_of_find?_eq_some hb
    have hbo : b.orders = os := by
      have := List.find?_some hb; simpa using this
    have hkeys : b.fcKeys = b.orders := by
      have hall : genApiCfg.branches.all (fun b => b.fcKeys == b.orders) = true := by decide
      have := List.all_eq_true.mp hall b hbm
      simpa using this
    rw [h8]
    simp only
    rw [dictGet_foldl_dictSet b.fcKeys (solvedVal b bases d f c) s.fc k, hkeys, hbo]
    constructor
    · intro hk; exact ⟨solvedVal b bases d f c k, by simp [hk], rfl, hbo⟩
    · intro hk; simp [hk]

end Symfc.C16
