/-
  Props/C01.lean — invariance under index permutation. PROPERTY THEOREMS ONLY.
-/
import SymfcModel.Model.Tables
import SymfcModel.Model.Inst
namespace Symfc.C01
open Symfc

/-- C01.a: in every stage of every order, the arrangements of one row are rearrangements of one multiset (so all
    elements written in one row are index permutations of each other), groups divide evenly, nothing is repeated. -/
theorem stages_sound :
    Gen.stagesO2.all (stageSound 2) = true ∧ Gen.stagesO3.all (stageSound 3) = true ∧
    Gen.stagesO4.all (stageSound 4) = true := by decide

/-- C01.a: every row is closed under ALL index permutations of its first arrangement: a row holds a complete
    S_n-orbit of the combination, for every stage of every order (so one row links a whole orbit). -/
theorem rows_are_full_orbits :
    Gen.stagesO2.all (stageFullOrbits 2) = true ∧ Gen.stagesO3.all (stageFullOrbits 3) = true ∧
    Gen.stagesO4.all (stageFullOrbits 4) = true := by decide

/-- C01.c (order 4, after the fix of finding F2): the representative written is the row minimum — one value per
    orbit, because every row holds the whole orbit — so the result cannot depend on the order of writes. -/
theorem o4_representative_is_row_minimum : Gen.repKindO4 = RepKind.rowMin := by decide

/-- the stage tables of the fast path and of the projector reference path are the same tables (C11.d for C01) -/
theorem explicit_n_batch_is_bound :
    Gen.explicitBatchBoundO2 = true ∧ Gen.explicitBatchBoundO3 = true ∧ Gen.explicitBatchBoundO4 = true := by decide

end Symfc.C01
