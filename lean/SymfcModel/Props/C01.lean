/-
  Props/C01.lean — invariance under index permutation. PROPERTY THEOREMS ONLY.
-/
import SymfcModel.Model.Tables
import SymfcModel.Model.Inst
import SymfcModel.Lemmas.PermSound
namespace Symfc.C01
open Symfc

/-- C01.a: in every stage of every order, the arrangements of one row are rearrangements of one multiset (so all
    elements written in one row are index permutations of each other), groups divide evenly, nothing is repeated. -/
theorem stages_sound :
    Gen.stagesO2.all (stageSound 2) = true ∧ Gen.stagesO3.all (stageSound 3) = true ∧
    Gen.stagesO4.all (stageSound 4) = true := by decide

/-- C01.a: every row is closed under ALL index permutations of its first arrangement: a row holds a complete
    S_n-orbit of the combination, for every stage of every order (so one row links a whole orbit). -/
theorem rows_are_full_orbits :
    Gen.stagesO2.all (stageFullOrbits 2) = true ∧ Gen.stagesO3.all (stageFullOrbits 3) = true ∧
    Gen.stagesO4.all (stageFullOrbits 4) = true := by decide

/-- C01.c (order 4, after the fix of finding F2): the representative written is the row minimum — one value per
    orbit, because every row holds the whole orbit — so the result cannot depend on the order of writes. -/
theorem o4_representative_is_row_minimum : Gen.repKindO4 = RepKind.rowMin := by decide

/-- the stage tables of the fast path and of the projector reference path are the same tables (C11.d for C01) -/
theorem explicit_n_batch_is_bound :
    Gen.explicitBatchBoundO2 = true ∧ Gen.explicitBatchBoundO3 = true ∧ Gen.explicitBatchBoundO4 = true := by decide

/-- C01.b (soundness, every order, every representative rule, every batch split, every write order):
    every edge of the final pointer graph joins two elements of ONE row of one stage. Rows consist of index
    permutations of one combination (`stages_sound`), so no component — hence no basis column of `c_pt` — ever mixes
    elements that are not related by an index permutation. -/
theorem every_link_joins_two_elements_of_one_row (ops : CutoffOps) (c : Cell) (n : Nat) (rk : RepKind)
    (stages : List Stage) (cut : Option CutoffIn) (nBatch : String → Nat) (ptr' : Array Int)
    (h : permDecompr ops c n rk stages cut nBatch = some ptr') (a b : Nat) (hl : linked ptr' a b) :
    ∃ r ∈ allStageRows ops c n stages cut, a ∈ r ∧ b ∈ r :=
  permDecompr_links_within_rows h a b hl

/-- C01.c (order 4, representative = row minimum): if the rows are orbit-closed (two rows sharing an element have
    the same elements — true because every row holds a whole S₄×T orbit; that lifting is `C01_orbit_closed_*` when
    present, otherwise validated per input by the correspondence harness) then the components of the pointer graph
    are EXACTLY the rows: every orbit is one component, for every batch split and write order. -/
theorem o4_components_are_exactly_the_rows (c : Cell) (cut : Option CutoffIn) (nBatch : String → Nat)
    (ptr' : Array Int)
    (h : permDecompr Gen.cutoffOps c 4 Gen.repKindO4 Gen.stagesO4 cut nBatch = some ptr')
    (hoc : OrbitClosed (allStageRows Gen.cutoffOps c 4 Gen.stagesO4 cut))
    (hb : ∀ r ∈ allStageRows Gen.cutoffOps c 4 Gen.stagesO4 cut, ∀ e ∈ r, e < c.N ^ 4 * 3 ^ 4 / c.nlp)
    (a b : Nat) :
    SameComp ptr' a b ↔ ∃ r ∈ allStageRows Gen.cutoffOps c 4 Gen.stagesO4 cut, a ∈ r ∧ b ∈ r := by
  have hk : Gen.repKindO4 = RepKind.rowMin := by decide
  rw [hk] at h
  exact permDecompr_rowMin_sameComp_iff h hoc hb a b

/-- C01.c / C11.b (order 4): the pointer array itself does not depend on the batch counts -/
theorem o4_pointer_array_independent_of_batching (c : Cell) (cut : Option CutoffIn) (nBatch nBatch' : String → Nat)
    (p1 p2 : Array Int)
    (h1 : permDecompr Gen.cutoffOps c 4 Gen.repKindO4 Gen.stagesO4 cut nBatch = some p1)
    (h2 : permDecompr Gen.cutoffOps c 4 Gen.repKindO4 Gen.stagesO4 cut nBatch' = some p2)
    (hoc : OrbitClosed (allStageRows Gen.cutoffOps c 4 Gen.stagesO4 cut)) : p1 = p2 := by
  have hk : Gen.repKindO4 = RepKind.rowMin := by decide
  rw [hk] at h1 h2
  exact permDecompr_rowMin_batch_indep h1 h2 hoc

end Symfc.C01
