/-
  Props/C01.lean — invariance under index permutation. PROPERTY THEOREMS ONLY.
-/
import SymfcModel.Model.Tables
import SymfcModel.Model.Inst
import SymfcModel.Lemmas.PermSound
import SymfcModel.Lemmas.OrbitClosed
import SymfcModel.Lemmas.Col0
import SymfcModel.Lemmas.Order3
import SymfcModel.Lemmas.Components
import SymfcModel.Lemmas.Pipeline
import SymfcModel.Lemmas.Corollaries
namespace Symfc.C01
open Symfc

/-- C01.a: in every stage of every order, the arrangements of one row are rearrangements of one multiset (so all
    elements written in one row are index permutations of each other), groups divide evenly, nothing is repeated. -/
theorem stages_sound :
    Gen.stagesO2.all (stageSound 2) = true ∧ Gen.stagesO3.all (stageSound 3) = true ∧
    Gen.stagesO4.all (stageSound 4) = true := by decide

/-- C01.a: every row is closed under ALL index permutations of its first arrangement: a row holds a complete
    S_n-orbit of the combination, for every stage of every order (so one row links a whole orbit). -/
theorem rows_are_full_orbits :
    Gen.stagesO2.all (stageFullOrbits 2) = true ∧ Gen.stagesO3.all (stageFullOrbits 3) = true ∧
    Gen.stagesO4.all (stageFullOrbits 4) = true := by decide

/-- C01.c (order 4, after the fix of finding F2): the representative written is the row minimum — one value per
    orbit, because every row holds the whole orbit — so the result cannot depend on the order of writes. -/
theorem o4_representative_is_row_minimum : Gen.repKindO4 = RepKind.rowMin := by decide

/-- the stage tables of the fast path and of the projector reference path are the same tables (C11.d for C01) -/
theorem explicit_n_batch_is_bound :
    Gen.explicitBatchBoundO2 = true ∧ Gen.explicitBatchBoundO3 = true ∧ Gen.explicitBatchBoundO4 = true := by decide

/-- C01.b (soundness, every order, every representative rule, every batch split, every write order):
    every edge of the final pointer graph joins two elements of ONE row of one stage. Rows consist of index
    permutations of one combination (`stages_sound`), so no component — hence no basis column of `c_pt` — ever mixes
    elements that are not related by an index permutation. -/
theorem every_link_joins_two_elements_of_one_row (ops : CutoffOps) (c : Cell) (n : Nat) (rk : RepKind)
    (stages : List Stage) (cut : Option CutoffIn) (nBatch : String → Nat) (ptr' : Array Int)
    (h : permDecompr ops c n rk stages cut nBatch = some ptr') (a b : Nat) (hl : linked ptr' a b) :
    ∃ r ∈ allStageRows ops c n stages cut, a ∈ r ∧ b ∈ r :=
  permDecompr_links_within_rows h a b hl

/-- C01.c (order 4, representative = row minimum): if the rows are orbit-closed (two rows sharing an element have
    the same elements — true because every row holds a whole S₄×T orbit; that lifting is `C01_orbit_closed_*` when
    present, otherwise validated per input by the correspondence harness) then the components of the pointer graph
    are EXACTLY the rows: every orbit is one component, for every batch split and write order. -/
theorem o4_components_are_exactly_the_rows (c : Cell) (cut : Option CutoffIn) (nBatch : String → Nat)
    (ptr' : Array Int)
    (h : permDecompr Gen.cutoffOps c 4 Gen.repKindO4 Gen.stagesO4 cut nBatch = some ptr')
    (hoc : OrbitClosed (allStageRows Gen.cutoffOps c 4 Gen.stagesO4 cut))
    (hb : ∀ r ∈ allStageRows Gen.cutoffOps c 4 Gen.stagesO4 cut, ∀ e ∈ r, e < c.N ^ 4 * 3 ^ 4 / c.nlp)
    (a b : Nat) :
    SameComp ptr' a b ↔ ∃ r ∈ allStageRows Gen.cutoffOps c 4 Gen.stagesO4 cut, a ∈ r ∧ b ∈ r := by
  have hk : Gen.repKindO4 = RepKind.rowMin := by decide
  rw [hk] at h
  exact permDecompr_rowMin_sameComp_iff h hoc hb a b

/-- C01.c / C11.b (order 4): the pointer array itself does not depend on the batch counts -/
theorem o4_pointer_array_independent_of_batching (c : Cell) (cut : Option CutoffIn) (nBatch nBatch' : String → Nat)
    (p1 p2 : Array Int)
    (h1 : permDecompr Gen.cutoffOps c 4 Gen.repKindO4 Gen.stagesO4 cut nBatch = some p1)
    (h2 : permDecompr Gen.cutoffOps c 4 Gen.repKindO4 Gen.stagesO4 cut nBatch' = some p2)
    (hoc : OrbitClosed (allStageRows Gen.cutoffOps c 4 Gen.stagesO4 cut)) : p1 = p2 := by
  have hk : Gen.repKindO4 = RepKind.rowMin := by decide
  rw [hk] at h1 h2
  exact permDecompr_rowMin_batch_indep h1 h2 hoc

/-- C01 lifting (every order 2, 3, 4; every well-formed supercell: any number n_lp ≥ 1 of lattice points, any atom
    order; with or without cutoff): two rows written by the permutation stage that share an element have exactly the
    same elements, all elements are in range, and every row is closed under ALL index permutations of its entry
    tuples (a row holds a whole S_n × T orbit of class-space elements). -/
theorem rows_are_whole_orbits (c : Cell) (hwf : c.wf = true) (n : Nat) (hn : n = 2 ∨ n = 3 ∨ n = 4)
    (cut : Option CutoffIn) (hcut : ∀ x, cut = some x → x.N = c.N) :
    OrbitClosed (allStageRows Gen.cutoffOps c n (stagesFor n) cut) ∧
    (∀ r ∈ allStageRows Gen.cutoffOps c n (stagesFor n) cut, ∀ e ∈ r, e < c.N ^ n * 3 ^ n / c.nlp) ∧
    (∀ r ∈ allStageRows Gen.cutoffOps c n (stagesFor n) cut, ∀ t : List Nat, t.length = n → (∀ e ∈ t, e < 3 * c.N) →
      elemIdx c.N (c.atomicDecompr n) t ∈ r → ∀ σ ∈ permsOf (List.range n),
        elemIdx c.N (c.atomicDecompr n) (σ.map (fun i => t.getD i 0)) ∈ r) :=
  ⟨OC.allStageRows_orbitClosed c hwf hn cut hcut, OC.allStageRows_lt c hwf hn cut hcut,
   fun r hr t hlen hlt hmem σ hσ => OC.allStageRows_perm_closed c hwf hn cut hcut r hr t hlen hlt hmem σ hσ⟩

/-- C01, ORDER 4, full statement on the model (no residual hypothesis): for every well-formed supercell, every cutoff
    and every batch split, the connected components of the pointer graph are exactly the rows, and each component is
    closed under every index permutation σ ∈ S₄ — so every column of `c_pt` (normalised indicator of a component) is
    invariant under all index permutations. -/
theorem C01_order4 (c : Cell) (hwf : c.wf = true) (cut : Option CutoffIn) (hcut : ∀ x, cut = some x → x.N = c.N)
    (nBatch : String → Nat) (ptr' : Array Int)
    (h : permDecompr Gen.cutoffOps c 4 Gen.repKindO4 Gen.stagesO4 cut nBatch = some ptr') :
    (∀ a b, SameComp ptr' a b ↔ ∃ r ∈ allStageRows Gen.cutoffOps c 4 Gen.stagesO4 cut, a ∈ r ∧ b ∈ r) ∧
    (∀ r ∈ allStageRows Gen.cutoffOps c 4 Gen.stagesO4 cut, ∀ t : List Nat, t.length = 4 → (∀ e ∈ t, e < 3 * c.N) →
      elemIdx c.N (c.atomicDecompr 4) t ∈ r → ∀ σ ∈ permsOf (List.range 4),
        SameComp ptr' (elemIdx c.N (c.atomicDecompr 4) t)
          (elemIdx c.N (c.atomicDecompr 4) (σ.map (fun i => t.getD i 0)))) :=
  ⟨fun a b => OC.o4_components_are_rows c hwf cut hcut nBatch ptr' h a b,
   fun r hr t hlen hlt hmem σ hσ => OC.o4_components_perm_closed c hwf cut hcut nBatch ptr' h r hr t hlen hlt hmem σ hσ⟩

/-- C01, ORDER 2, full statement on the model: with first-column representatives and last-write-wins, for every
    well-formed supercell, every cutoff, every row order, the components are exactly the rows {(ia,jb), (jb,ia)}
    (resp. {(ia,ia)}), hence closed under the index transposition. -/
theorem C01_order2 (c : Cell) (hwf : c.wf = true) (cut : Option CutoffIn) (hcut : ∀ x, cut = some x → x.N = c.N)
    (nBatch : String → Nat) (ptr' : Array Int)
    (h : permDecompr Gen.cutoffOps c 2 Gen.repKindO2 Gen.stagesO2 cut nBatch = some ptr') (a b : Nat) :
    SameComp ptr' a b ↔ ∃ r ∈ allStageRows Gen.cutoffOps c 2 Gen.stagesO2 cut, a ∈ r ∧ b ∈ r := by
  have hk : Gen.repKindO2 = RepKind.col0 := by decide
  rw [hk] at h
  have hs : stagesFor 2 = Gen.stagesO2 := rfl
  have hoc := OC.allStageRows_orbitClosed c hwf (n := 2) (Or.inl rfl) cut hcut
  have hb := OC.allStageRows_lt c hwf (n := 2) (Or.inl rfl) cut hcut
  rw [hs] at hoc hb
  refine permDecompr_col0_le_two_sameComp_iff h ?_ hoc hb a b
  intro r hr
  -- every row of the order-2 stages has 1 or 2 entries
  unfold allStageRows at hr
  rw [List.mem_flatMap] at hr
  obtain ⟨st, hst, hr⟩ := hr
  unfold stageRows at hr
  rw [List.mem_flatMap] at hr
  obtain ⟨comb, _, hr⟩ := hr
  have hl := stageRowsOf_length hr
  have hall : Gen.stagesO2.all (fun st => st.perms.length / st.nPermsGroup == 1 || st.perms.length / st.nPermsGroup == 2) = true := by
    decide
  have := List.all_eq_true.mp hall st hst
  rw [hl]
  simpa using this

/-- C01, ORDER 3, full statement on the model (the fragile mechanism: first-column representatives, last write wins,
    combination batches): for every well-formed supercell, every cutoff, EVERY batch split of every stage, the
    components of the pointer graph are exactly the rows (whole S₃ × T orbits). -/
theorem C01_order3 (c : Cell) (hwf : c.wf = true) (cut : Option CutoffIn) (hcut : ∀ x, cut = some x → x.N = c.N)
    (nBatch : String → Nat) (ptr' : Array Int)
    (h : permDecompr Gen.cutoffOps c 3 Gen.repKindO3 Gen.stagesO3 cut nBatch = some ptr') (a b : Nat) :
    SameComp ptr' a b ↔ ∃ r ∈ allStageRows Gen.cutoffOps c 3 Gen.stagesO3 cut, a ∈ r ∧ b ∈ r :=
  O3.C01_order3 c hwf cut hcut nBatch ptr' h a b

/-- C01 / C11 (order 3): the partition into components is the same for every two batch splits (the pointer values
    themselves may differ — only the partition, hence `c_pt`, is invariant). -/
theorem order3_partition_independent_of_batching (c : Cell) (hwf : c.wf = true) (cut : Option CutoffIn)
    (hcut : ∀ x, cut = some x → x.N = c.N) (nBatch nBatch' : String → Nat) (p1 p2 : Array Int)
    (h1 : permDecompr Gen.cutoffOps c 3 Gen.repKindO3 Gen.stagesO3 cut nBatch = some p1)
    (h2 : permDecompr Gen.cutoffOps c 3 Gen.repKindO3 Gen.stagesO3 cut nBatch' = some p2) (a b : Nat) :
    SameComp p1 a b ↔ SameComp p2 a b :=
  (O3.C01_order3 c hwf cut hcut nBatch p1 h1 a b).trans (O3.C01_order3 c hwf cut hcut nBatch' p2 h2 a b).symm

/-- C01, all orders together: every component of the pointer graph is closed under every index permutation.
    (order n ∈ {2,3,4}, any well-formed cell, any cutoff, any batch split) -/
theorem C01_components_closed_under_index_permutations (c : Cell) (hwf : c.wf = true) (n : Nat)
    (hn : n = 2 ∨ n = 3 ∨ n = 4) (cut : Option CutoffIn) (hcut : ∀ x, cut = some x → x.N = c.N)
    (nBatch : String → Nat) (ptr' : Array Int)
    (h : permDecompr Gen.cutoffOps c n (repFor n) (stagesFor n) cut nBatch = some ptr')
    (r : List Nat) (hr : r ∈ allStageRows Gen.cutoffOps c n (stagesFor n) cut)
    (t : List Nat) (hlen : t.length = n) (hlt : ∀ e ∈ t, e < 3 * c.N)
    (hmem : elemIdx c.N (c.atomicDecompr n) t ∈ r) (σ : List Nat) (hσ : σ ∈ permsOf (List.range n)) :
    SameComp ptr' (elemIdx c.N (c.atomicDecompr n) t)
      (elemIdx c.N (c.atomicDecompr n) (σ.map (fun i => t.getD i 0))) := by
  have hclosed := OC.allStageRows_perm_closed c hwf hn cut hcut r hr t hlen hlt hmem σ hσ
  rcases hn with rfl | rfl | rfl
  · exact (C01_order2 c hwf cut hcut nBatch ptr' h _ _).mpr ⟨r, hr, hmem, hclosed⟩
  · exact (C01_order3 c hwf cut hcut nBatch ptr' h _ _).mpr ⟨r, hr, hmem, hclosed⟩
  · exact ((C01_order4 c hwf cut hcut nBatch ptr' h).1 _ _).mpr ⟨r, hr, hmem, hclosed⟩

/-- C01, executable end: the label array computed by the model's `componentLabels` (the function the correspondence
    harness compares with scipy's `connected_components` partition of `c_pt`) decides `SameComp`: two covered elements
    get the same label iff they are in the same component — for the pointer array of every order, cell, cutoff,
    representative rule and batch split. Together with `C01_order{2,3,4}`: equal label ⇔ common row ⇔ same S_n×T orbit. -/
theorem labels_decide_components (c : Cell) (hwf : c.wf = true) (n : Nat) (hn : n = 2 ∨ n = 3 ∨ n = 4)
    (cut : Option CutoffIn) (hcut : ∀ x, cut = some x → x.N = c.N) (nBatch : String → Nat) (ptr' : Array Int)
    (h : permDecompr Gen.cutoffOps c n (repFor n) (stagesFor n) cut nBatch = some ptr')
    (a b : Nat) (ha : covered ptr' a) (hb : covered ptr' b) :
    (componentLabels ptr').getD a (-1) = (componentLabels ptr').getD b (-1) ↔
      ∃ r ∈ allStageRows Gen.cutoffOps c n (stagesFor n) cut, a ∈ r ∧ b ∈ r := by
  have hlt := OC.allStageRows_lt c hwf hn cut hcut
  rw [permDecompr_componentLabels_iff h hlt ha hb]
  rcases hn with rfl | rfl | rfl
  · exact C01_order2 c hwf cut hcut nBatch ptr' h a b
  · exact C01_order3 c hwf cut hcut nBatch ptr' h a b
  · exact (C01_order4 c hwf cut hcut nBatch ptr' h).1 a b

/-- C01, linear-algebra end: `c_pt` is the normalised indicator matrix of the component labelling. If the label classes
    are exactly the orbits of a family of permutations (here: index permutations combined with lattice translations,
    by `C01_order{2,3,4}` + `rows_are_whole_orbits`) and unlabelled (eliminated) elements stay unlabelled, then the
    range of `c_pt` is exactly the set of vectors that vanish on eliminated elements and are invariant under every
    one of those permutations — every basis vector, being in that range, is invariant under all index permutations. -/
theorem range_of_c_pt_is_the_invariant_subspace {K : Type*} [Field K] {n k G : Type*} [Fintype n] [Fintype k]
    [DecidableEq k] (label : n → Option k) (w : k → K)
    (hcount : ∀ j, (w j) ^ 2 * ((Finset.univ.filter (fun i => label i = some j)).card : K) = 1)
    (g : G → Equiv.Perm n)
    (horbit : ∀ i j, label i ≠ none → (label i = label j ↔ ∃ s : G, g s i = j))
    (hnone : ∀ s i, label i = none → label (g s i) = none) (x : n → K) :
    (∃ z : k → K, x = (Matrix.of (fun i j => if label i = some j then w j else 0)).mulVec z) ↔
      ((∀ i, label i = none → x i = 0) ∧ (∀ s i, x (g s i) = x i)) :=
  Pipeline.indicator_range_invariant label w hcount g horbit hnone x

/-- C01, capstone (K1): EVERY tensor `x = B c` expanded in the returned basis `B = A W₂ W₃` is invariant under all the
    index permutations. Symbols: `A` = `c_pt`, the normalised indicator matrix (`w j` = 1/√|class j|, `hcount`) of
    `label` = the connected components of the permutation stage, which by `C01_order2/3/4` + `rows_are_whole_orbits` are
    exactly the S_n × T orbits — the orbits of the family `g s` (index permutations combined with lattice translations,
    `horbit`); `label i = none` = element eliminated (never written; beyond the cutoff), which `g s` keeps eliminated
    (`hnone`). `W₂` (`c_rpt`) and `W₃` (`eigvecs`) may be ANY matrices: no eigen contract is needed for this property,
    the later stages only recombine columns of `c_pt`. Also: `x` vanishes on every eliminated element. -/
theorem every_basis_vector_is_invariant_under_the_index_permutations {K : Type*} [Field K] {n k k₂ k₃ G : Type*}
    [Fintype n] [Fintype k] [Fintype k₂] [Fintype k₃] [DecidableEq k] (label : n → Option k) (w : k → K)
    (hcount : ∀ j, (w j) ^ 2 * ((Finset.univ.filter (fun i => label i = some j)).card : K) = 1)
    (g : G → Equiv.Perm n)
    (horbit : ∀ i j, label i ≠ none → (label i = label j ↔ ∃ s : G, g s i = j))
    (hnone : ∀ s i, label i = none → label (g s i) = none)
    (A : Matrix n k K) (hAdef : A = Matrix.of (fun i j => if label i = some j then w j else 0))
    (W₂ : Matrix k k₂ K) (W₃ : Matrix k₂ k₃ K) (c : k₃ → K) :
    (∀ s i, ((A * W₂ * W₃).mulVec c) (g s i) = ((A * W₂ * W₃).mulVec c) i) ∧
      (∀ i, label i = none → ((A * W₂ * W₃).mulVec c) i = 0) :=
  Corollaries.basis_vectors_are_invariant_under_the_permutations label w hcount g horbit hnone A hAdef W₂ W₃ c

end Symfc.C01
