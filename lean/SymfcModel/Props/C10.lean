/-
  Props/C10.lean — results do not depend on how the same crystal is described. PROPERTY THEOREMS ONLY.
-/
import SymfcModel.Model.Tables
import SymfcModel.Gen.PermTables
import SymfcModel.Lemmas.Relabel4
namespace Symfc.C10
open Symfc

/-- C10.a side condition "the forced-zero set is invariant under Cartesian rotations": for orders 2 and 3 no
    admissible element is forced to zero by the tables at all (every equality pattern is covered) … -/
theorem no_pattern_forced_to_zero_O2_O3 :
    Gen.stagesO2.all (tableComplete 2) = true ∧ Gen.stagesO3.all (tableComplete 3) = true := by decide

/-- … while at order 4 the pattern (p,p,q,q) is forced to zero (finding F1); that set is defined through Cartesian
    components, so it is NOT invariant under a general rotation: the side condition fails exactly there. -/
theorem order4_forces_ppqq_to_zero :
    (surjections 4 2).filter (fun a => !((Gen.stagesO4.flatMap (·.perms)).contains a)) =
      [[0,0,1,1],[0,1,0,1],[0,1,1,0],[1,0,0,1],[1,0,1,0],[1,1,0,0]] := by decide

open Relabelling in
/-- C10, atom ordering (orders 2, 3, 4; any well-formed supercell, any n_lp; with or without cutoff): the elements of
    two index tuples are written in one row by the permutation stage IFF the first is covered (atoms pairwise within the
    cutoff; at order 4 not of the pattern (p,p,q,q) — finding F1) and the second is a lattice translate of an index
    permutation of the first. The right-hand side does not mention independent atoms, class numbering, combination
    order or batches: the partition is a function of the crystal, not of its description. -/
theorem same_row_iff_covered_and_same_orbit (c : Cell) (hwf : c.wf = true) (n : Nat)
    (hn : n = 2 ∨ n = 3 ∨ n = 4) (cut : Option CutoffIn) (hcut : ∀ x, cut = some x → Cov.CutOK c x)
    (t t' : List Nat) (hlen : t.length = n) (hlt : ∀ e ∈ t, e < 3 * c.N)
    (hlen' : t'.length = n) (hlt' : ∀ e ∈ t', e < 3 * c.N) :
    (∃ r ∈ allStageRows Gen.cutoffOps c n (stagesFor n) cut,
        elemIdx c.N (c.atomicDecompr n) t ∈ r ∧ elemIdx c.N (c.atomicDecompr n) t' ∈ r) ↔
      Relabel.Covered n cut t ∧
        ∃ σ ∈ permsOf (List.range n), ∃ l, l < c.nlp ∧
          t' = (σ.map (fun i => t.getD i 0)).map (OC.tauE c l) :=
  Relabel.same_row_iff_covered_and_same_orbit c hwf n hn cut hcut t t' hlen hlt hlen' hlt'

/-- C10: relabelling the atoms by a permutation π gives a well-formed supercell with the same n_lp whose translation
    permutations are the conjugates `π ∘ tp[l] ∘ π⁻¹`, and transports cutoffs and index tuples. -/
theorem relabelled_description_is_well_formed (c : Cell) (hwf : c.wf = true) (π πinv : Array Nat)
    (hπ : isRelabelling c.N π πinv = true) :
    (c.relabel π πinv).N = c.N ∧ (c.relabel π πinv).nlp = c.nlp ∧ (c.relabel π πinv).wf = true ∧
    (∀ l i, l < c.nlp → i < c.N → (c.relabel π πinv).img l (Relabelling.ap π i) = Relabelling.ap π (c.img l i)) :=
  let h := Relabel.relabel_preserves c hwf π πinv hπ
  ⟨h.1, h.2.1, h.2.2.1, h.2.2.2.1⟩

/-- C10, MAIN (atom ordering): the partition of tensor elements computed by the permutation stage is EQUIVARIANT under
    relabelling the atoms — although the independent atoms, the class numbering and the combinations all differ between
    the two descriptions. -/
theorem partition_equivariant_under_atom_relabelling (c : Cell) (hwf : c.wf = true)
    (π πinv : Array Nat) (hπ : isRelabelling c.N π πinv = true)
    (n : Nat) (hn : n = 2 ∨ n = 3 ∨ n = 4)
    (cut : Option CutoffIn) (hcut : ∀ x, cut = some x → Cov.CutOK c x)
    (t t' : List Nat) (hlen : t.length = n) (hlt : ∀ e ∈ t, e < 3 * c.N)
    (hlen' : t'.length = n) (hlt' : ∀ e ∈ t', e < 3 * c.N) :
    Relabel.SameRow c n cut t t' ↔
      Relabel.SameRow (c.relabel π πinv) n (Relabel.relabelCut π πinv cut) (relabelTuple π t) (relabelTuple π t') :=
  Relabel.partition_equivariant_under_atom_relabelling c hwf π πinv hπ n hn cut hcut t t' hlen hlt hlen' hlt'

/-- C10 on the computed pointer arrays: the connected components (columns of `c_pt`) of the two descriptions
    correspond under π, for any two batch splits. -/
theorem components_equivariant_under_atom_relabelling (c : Cell) (hwf : c.wf = true)
    (π πinv : Array Nat) (hπ : isRelabelling c.N π πinv = true)
    (n : Nat) (hn : n = 2 ∨ n = 3 ∨ n = 4)
    (cut : Option CutoffIn) (hcut : ∀ x, cut = some x → Cov.CutOK c x)
    (nBatch nBatch' : String → Nat) (p p' : Array Int)
    (h : permDecompr Gen.cutoffOps c n (repFor n) (stagesFor n) cut nBatch = some p)
    (h' : permDecompr Gen.cutoffOps (c.relabel π πinv) n (repFor n) (stagesFor n)
      (Relabel.relabelCut π πinv cut) nBatch' = some p')
    (t t' : List Nat) (hlen : t.length = n) (hlt : ∀ e ∈ t, e < 3 * c.N)
    (hlen' : t'.length = n) (hlt' : ∀ e ∈ t', e < 3 * c.N) :
    SameComp p (elemIdx c.N (c.atomicDecompr n) t) (elemIdx c.N (c.atomicDecompr n) t') ↔
    SameComp p' (elemIdx c.N ((c.relabel π πinv).atomicDecompr n) (relabelTuple π t))
      (elemIdx c.N ((c.relabel π πinv).atomicDecompr n) (relabelTuple π t')) :=
  Relabel.components_equivariant_under_atom_relabelling c hwf π πinv hπ n hn cut hcut nBatch nBatch' p p' h h'
    t t' hlen hlt hlen' hlt'

/-- C10: the set of eliminated (forced-zero) elements is equivariant as well. -/
theorem covered_equivariant_under_atom_relabelling (c : Cell) (hwf : c.wf = true)
    (π πinv : Array Nat) (hπ : isRelabelling c.N π πinv = true)
    (n : Nat) (hn : n = 2 ∨ n = 3 ∨ n = 4)
    (cut : Option CutoffIn) (hcut : ∀ x, cut = some x → Cov.CutOK c x)
    (nBatch nBatch' : String → Nat) (p p' : Array Int)
    (h : permDecompr Gen.cutoffOps c n (repFor n) (stagesFor n) cut nBatch = some p)
    (h' : permDecompr Gen.cutoffOps (c.relabel π πinv) n (repFor n) (stagesFor n)
      (Relabel.relabelCut π πinv cut) nBatch' = some p')
    (t : List Nat) (hlen : t.length = n) (hlt : ∀ e ∈ t, e < 3 * c.N) :
    covered p (elemIdx c.N (c.atomicDecompr n) t) ↔
    covered p' (elemIdx c.N ((c.relabel π πinv).atomicDecompr n) (relabelTuple π t)) :=
  Relabel.covered_equivariant_under_atom_relabelling c hwf π πinv hπ n hn cut hcut nBatch nBatch' p p' h h' t hlen hlt

/-- C10: the library lists the lattice translations of a re-described crystal in another ORDER; the partition only
    depends on the SET of translations. -/
theorem partition_depends_only_on_the_set_of_translations (c₁ c₂ : Cell) (h₁ : c₁.wf = true)
    (h₂ : c₂.wf = true) (hN : c₁.N = c₂.N)
    (h12 : ∀ l, l < c₁.nlp → ∃ l', l' < c₂.nlp ∧ ∀ i, i < c₁.N → c₁.img l i = c₂.img l' i)
    (h21 : ∀ l, l < c₂.nlp → ∃ l', l' < c₁.nlp ∧ ∀ i, i < c₁.N → c₂.img l i = c₁.img l' i)
    (n : Nat) (hn : n = 2 ∨ n = 3 ∨ n = 4) (cut : Option CutoffIn)
    (hcut₁ : ∀ x, cut = some x → Cov.CutOK c₁ x)
    (t t' : List Nat) (hlen : t.length = n) (hlt : ∀ e ∈ t, e < 3 * c₁.N)
    (hlen' : t'.length = n) (hlt' : ∀ e ∈ t', e < 3 * c₁.N) :
    Relabel.SameRow c₁ n cut t t' ↔ Relabel.SameRow c₂ n cut t t' :=
  Relabel.partition_depends_only_on_the_set_of_translations c₁ c₂ h₁ h₂ hN h12 h21 n hn cut hcut₁ t t' hlen hlt hlen' hlt'

/-- C10, atom ordering as the library sees it: `c₂` is ANY well-formed description with the same atoms count whose set of
    translation permutations is the relabelled set (what the correspondence check `relabel` observes for the real
    re-ordered crystal). The connected components of the two pointer arrays — the columns of the two `c_pt` matrices —
    correspond under π, for any batch splits. -/
theorem components_equivariant_under_redescription (c₁ c₂ : Cell) (h₁ : c₁.wf = true)
    (h₂ : c₂.wf = true) (π πinv : Array Nat) (hπ : isRelabelling c₁.N π πinv = true)
    (hN : c₁.N = c₂.N)
    (h12 : ∀ l, l < (c₁.relabel π πinv).nlp → ∃ l', l' < c₂.nlp ∧
      ∀ i, i < c₁.N → (c₁.relabel π πinv).img l i = c₂.img l' i)
    (h21 : ∀ l, l < c₂.nlp → ∃ l', l' < (c₁.relabel π πinv).nlp ∧
      ∀ i, i < c₁.N → c₂.img l i = (c₁.relabel π πinv).img l' i)
    (n : Nat) (hn : n = 2 ∨ n = 3 ∨ n = 4) (cut : Option CutoffIn)
    (hcut : ∀ x, cut = some x → Cov.CutOK c₁ x)
    (nBatch₁ nBatch₂ : String → Nat) (p₁ p₂ : Array Int)
    (hp₁ : permDecompr Gen.cutoffOps c₁ n (repFor n) (stagesFor n) cut nBatch₁ = some p₁)
    (hp₂ : permDecompr Gen.cutoffOps c₂ n (repFor n) (stagesFor n) (Relabel.relabelCut π πinv cut) nBatch₂ = some p₂)
    (t t' : List Nat) (hlen : t.length = n) (hlt : ∀ e ∈ t, e < 3 * c₁.N)
    (hlen' : t'.length = n) (hlt' : ∀ e ∈ t', e < 3 * c₁.N) :
    SameComp p₁ (elemIdx c₁.N (c₁.atomicDecompr n) t) (elemIdx c₁.N (c₁.atomicDecompr n) t') ↔
    SameComp p₂ (elemIdx c₂.N (c₂.atomicDecompr n) (relabelTuple π t))
      (elemIdx c₂.N (c₂.atomicDecompr n) (relabelTuple π t')) :=
  Relabel.components_equivariant_under_redescription c₁ c₂ h₁ h₂ π πinv hπ hN h12 h21 n hn cut hcut
    nBatch₁ nBatch₂ p₁ p₂ hp₁ hp₂ t t' hlen hlt hlen' hlt'

end Symfc.C10
