/-
  Props/C10.lean — results do not depend on how the same crystal is described. PROPERTY THEOREMS ONLY.
-/
import SymfcModel.Model.Tables
import SymfcModel.Gen.PermTables
namespace Symfc.C10
open Symfc

/-- C10.a side condition "the forced-zero set is invariant under Cartesian rotations": for orders 2 and 3 no
    admissible element is forced to zero by the tables at all (every equality pattern is covered) … -/
theorem no_pattern_forced_to_zero_O2_O3 :
    Gen.stagesO2.all (tableComplete 2) = true ∧ Gen.stagesO3.all (tableComplete 3) = true := by decide

/-- … while at order 4 the pattern (p,p,q,q) is forced to zero (finding F1); that set is defined through Cartesian
    components, so it is NOT invariant under a general rotation: the side condition fails exactly there. -/
theorem order4_forces_ppqq_to_zero :
    (surjections 4 2).filter (fun a => !((Gen.stagesO4.flatMap (·.perms)).contains a)) =
      [[0,0,1,1],[0,1,0,1],[0,1,1,0],[1,0,0,1],[1,0,1,0],[1,1,0,0]] := by decide

end Symfc.C10
