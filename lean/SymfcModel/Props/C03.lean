/-
  Props/C03.lean — translational sum rule. PROPERTY THEOREMS ONLY.
-/
import SymfcModel.Model.Inst
import SymfcModel.Lemmas.LinAlg
namespace Symfc.C03
open Symfc

/-- C03.a/c: which rows are built and which positive divisor is used, per order and variant, as extracted:
    fast = only rows whose fixed second atom is independent; stable = all rows with divisor n_lp·N. -/
theorem sum_rule_variants :
    Gen.sumRuleCfgO2_fast = { indepMask := true, divisor := .natom } ∧
    Gen.sumRuleCfgO3_fast = { indepMask := true, divisor := .natom } ∧
    Gen.sumRuleCfgO4_fast = { indepMask := true, divisor := .nlpNatom } ∧
    Gen.sumRuleCfgO2_stable = { indepMask := false, divisor := .nlpNatom } ∧
    Gen.sumRuleCfgO3_stable = { indepMask := false, divisor := .nlpNatom } ∧
    Gen.sumRuleCfgO4_stable = { indepMask := false, divisor := .nlpNatom } := by decide

/-- the divisor ν is strictly positive for every supercell (N ≥ 1, n_lp ≥ 1), which is all the unit-eigenspace
    argument (L4) needs -/
theorem divisor_positive (cfg : SumRuleCfg) (h : cfg.divisor ≠ .other) (N nlp : Nat) (hN : 0 < N) (hl : 0 < nlp) :
    0 < cfg.divisor.eval N nlp := by
  cases hd : cfg.divisor with
  | natom => simp only [Divisor.eval]; exact hN
  | nlpNatom => simp only [Divisor.eval]; exact Nat.mul_pos hl hN
  | other => exact absurd hd h

/-- C03.a: the batch size `N^(n-1) · (N / n_batch)` is a multiple of N (every sum-rule row — N consecutive
    entries of the transposed index — lies inside one batch) and non-zero when `1 ≤ n_batch ≤ N`. -/
theorem batch_size_multiple_of_natom (N nb p : Nat) (hp : 1 ≤ p) :
    N ∣ N ^ p * (N / nb) := by
  obtain ⟨q, rfl⟩ : ∃ q, p = q + 1 := ⟨p - 1, by omega⟩
  exact ⟨N ^ q * (N / nb), by rw [Nat.pow_succ, Nat.mul_comm (N ^ q) N, Nat.mul_assoc]⟩

theorem batch_pows :
    Gen.sumRuleBatchPowO2 = 1 ∧ Gen.sumRuleBatchPowO3 = 2 ∧ Gen.sumRuleBatchPowO4 = 3 := by decide

section L4
open Matrix
variable {K : Type*} [Field K] [LinearOrder K] [IsStrictOrderedRing K]
variable {m k r : Type*} [Fintype m] [Fintype k] [Fintype r]

/-- C03.c (L4): with `T` the matrix whose rows are the sum-rule functionals `t_r` (class-space rows of `c_sum_cplmt`),
    `C` the compression matrix and ANY divisor ν > 0 (N or n_lp·N, as extracted), a vector is in the unit eigenspace
    of the matrix handed to the eigen-solver, `1 − CᵀTᵀTC/ν`, iff every sum-rule functional vanishes on `C v`. -/
theorem unit_eigenspace_is_the_sum_rule_kernel [DecidableEq k] (C : Matrix m k K) (T : Matrix r m K) (ν : K) (hν : 0 < ν)
    (v : k → K) :
    ((1 : Matrix k k K) - (1 / ν) • (Cᵀ * Tᵀ * T * C)) *ᵥ v = v ↔ T *ᵥ (C *ᵥ v) = 0 :=
  LinAlg.sumrule_unit_iff C T ν hν v

end L4

end Symfc.C03
