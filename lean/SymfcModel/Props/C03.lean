/-
  Props/C03.lean — translational sum rule. PROPERTY THEOREMS ONLY.
-/
import SymfcModel.Model.Inst
import SymfcModel.Lemmas.LinAlg
import SymfcModel.Lemmas.SumRule
import SymfcModel.Lemmas.TensorSym
import SymfcModel.Lemmas.O1
import SymfcModel.Gen.O1
import SymfcModel.Lemmas.Corollaries
namespace Symfc.C03
open Symfc

/-- C03.a/c: which rows are built and which positive divisor is used, per order and variant, as extracted:
    fast = only rows whose fixed second atom is independent; stable = all rows with divisor n_lp·N. -/
theorem sum_rule_variants :
    Gen.sumRuleCfgO2_fast = { indepMask := true, divisor := .natom } ∧
    Gen.sumRuleCfgO3_fast = { indepMask := true, divisor := .natom } ∧
    Gen.sumRuleCfgO4_fast = { indepMask := true, divisor := .nlpNatom } ∧
    Gen.sumRuleCfgO2_stable = { indepMask := false, divisor := .nlpNatom } ∧
    Gen.sumRuleCfgO3_stable = { indepMask := false, divisor := .nlpNatom } ∧
    Gen.sumRuleCfgO4_stable = { indepMask := false, divisor := .nlpNatom } := by decide

/-- the divisor ν is strictly positive for every supercell (N ≥ 1, n_lp ≥ 1), which is all the unit-eigenspace
    argument (L4) needs -/
theorem divisor_positive (cfg : SumRuleCfg) (h : cfg.divisor ≠ .other) (N nlp : Nat) (hN : 0 < N) (hl : 0 < nlp) :
    0 < cfg.divisor.eval N nlp := by
  cases hd : cfg.divisor with
  | natom => simp only [Divisor.eval]; exact hN
  | nlpNatom => simp only [Divisor.eval]; exact Nat.mul_pos hl hN
  | other => exact absurd hd h

/-- C03.a: the batch size `N^(n-1) · (N / n_batch)` is a multiple of N (every sum-rule row — N consecutive
    entries of the transposed index — lies inside one batch) and non-zero when `1 ≤ n_batch ≤ N`. -/
theorem batch_size_multiple_of_natom (N nb p : Nat) (hp : 1 ≤ p) :
    N ∣ N ^ p * (N / nb) := by
  obtain ⟨q, rfl⟩ : ∃ q, p = q + 1 := ⟨p - 1, by omega⟩
  exact ⟨N ^ q * (N / nb), by rw [Nat.pow_succ, Nat.mul_comm (N ^ q) N, Nat.mul_assoc]⟩

theorem batch_pows :
    Gen.sumRuleBatchPowO2 = 1 ∧ Gen.sumRuleBatchPowO3 = 2 ∧ Gen.sumRuleBatchPowO4 = 3 := by decide

/-- C03.a: in every batch (begin and length multiples of N) two stored entries lie in the same row of `c_sum_cplmt`
    iff they have the same Cartesian offset and the same tuple `rest` = (j, k, …): a row collects exactly the terms
    of ONE sum `Σ_i Φ[i a, j b, …]`. -/
theorem one_row_per_fixed_indices (N n b e x x' q q' : Nat) (hn : 1 ≤ n) (hb : N ∣ b) (he : N ∣ e - b)
    (hle : e ≤ N ^ n) (hq : q < e - b) (hq' : q' < e - b) :
    (x * (e - b) + q) / N = (x' * (e - b) + q') / N ↔
      x = x' ∧ (sumRuleTuple N n (b + q)).tail = (sumRuleTuple N n (b + q')).tail :=
  SumRule.sumRuleBatch_same_row_iff hn hb he hle hq hq'

/-- C03.a: the columns of a row are pairwise DISTINCT classes (lattice translations act freely), so the row is the
    0/1 functional `v ↦ Σ_{i summed} v[class(i, rest)·3ⁿ + x]`: the translational sum over the first atom index. -/
theorem row_is_the_translational_sum (c : Cell) (hwf : c.wf = true) (n : Nat) (hn : 2 ≤ n)
    (nzCut : Option (Array Bool)) (cfg : SumRuleCfg) (indep : List Nat)
    (rest : List Nat) (hlen : rest.length = n - 1) (hlt : ∀ x, x ∈ rest → x < c.N) (x : Nat) :
    (SumRule.rowCols c.N n (c.atomicDecompr n) nzCut cfg indep rest x).Nodup :=
  SumRule.rowCols_nodup c hwf n hn nzCut cfg indep rest hlen hlt x

/-- C03.a / C11.b: for EVERY batch size that is a positive multiple of N (all batch sizes the code can compute are),
    the row for (rest = unflat R, offset x) read off the batched output is the same batch-independent list of
    columns; no row is split across two batches. -/
theorem sum_rule_rows_do_not_depend_on_batching (c : Cell) (n : Nat) (nzCut : Option (Array Bool)) (cfg : SumRuleCfg)
    (B B' : Nat) (hn : 1 ≤ n) (hB : 0 < B) (hd : c.N ∣ B) (hB' : 0 < B') (hd' : c.N ∣ B')
    (out out' : List (Option (List (Nat × Nat))))
    (h : sumRuleBatches c n nzCut cfg B = some out) (h' : sumRuleBatches c n nzCut cfg B' = some out')
    (R x : Nat) (hR : R < c.N ^ (n - 1)) (hx : x < 3 ^ n) :
    SumRule.rowOf c.N n B out R x = SumRule.rowOf c.N n B' out' R x ∧
    SumRule.rowOf c.N n B out R x
      = SumRule.rowCols c.N n (c.atomicDecompr n) nzCut cfg c.indepAtoms (unflat c.N (n - 1) R) x :=
  ⟨SumRule.rowOf_batch_independent c n nzCut cfg B B' hn hB hd hB' hd' out out' h h' R x hR hx,
   SumRule.rowOf_eq c n nzCut cfg B hn hB hd out h R x hR hx⟩

/-- the batch sizes the code computes (`N^(n-1)·(N // n_batch)`, `1 ≤ n_batch ≤ N`) are positive multiples of N -/
theorem code_batch_sizes_qualify (N nb n : Nat) (hn : 2 ≤ n) (h1 : 1 ≤ nb) (h2 : nb ≤ N) :
    0 < N ^ (n - 1) * (N / nb) ∧ N ∣ N ^ (n - 1) * (N / nb) :=
  SumRule.code_batch_size_ok hn h1 h2

/-- C03 fast vs reference (no cutoff): the reference builds the row of EVERY (rest, x); the fast variant builds it
    only when the first atom of `rest` is independent (the other rows follow by translation invariance). -/
theorem fast_rows_are_the_reference_rows_with_independent_second_atom (N n : Nat) (ad : Array Nat)
    (cfgF cfgS : SumRuleCfg) (hF : cfgF.indepMask = true) (hS : cfgS.indepMask = false)
    (indep rest : List Nat) (x : Nat) :
    SumRule.rowCols N n ad none cfgF indep rest x =
      (if indep.contains (rest.getD 0 0) then SumRule.rowCols N n ad none cfgS indep rest x else []) := by
  rw [SumRule.rowCols_fast N n ad cfgF hF indep rest x, SumRule.rowCols_stable N n ad cfgS hS indep rest x]

section Everywhere
open TensorSym

/-- C03.c: from the rows the code actually builds (sum over the FIRST atom index, SECOND atom independent) to the full
    property: for a tensor that is invariant under index permutations (C01) and under lattice translations (C08), the sum
    over ANY one atom index with all other indices fixed vanishes, for EVERY choice of the other atoms. -/
theorem sum_rule_on_every_index_for_every_atom {K : Type*} [AddCommMonoid K] {N m : Nat}
    (Φ : (Fin (m + 2) → Fin N × Fin 3) → K)
    (T : Finset (Equiv.Perm (Fin N))) (indep : Finset (Fin N))
    (hsym : ∀ (σ : Equiv.Perm (Fin (m + 2))) x, Φ (x ∘ σ) = Φ x)
    (htr : ∀ τ ∈ T, ∀ x : Fin (m + 2) → Fin N × Fin 3, Φ (fun k => (τ (x k).1, (x k).2)) = Φ x)
    (hcover : ∀ j, ∃ τ ∈ T, ∃ j₀ ∈ indep, τ j₀ = j)
    (h : ∀ x : Fin (m + 2) → Fin N × Fin 3, (x 1).1 ∈ indep →
      ∑ i : Fin N, Φ (Function.update x 0 (i, (x 0).2)) = 0) :
    ∀ (k : Fin (m + 2)) (x : Fin (m + 2) → Fin N × Fin 3),
      ∑ i : Fin N, Φ (Function.update x k (i, (x k).2)) = 0 :=
  S3 Φ T indep hsym htr hcover h

end Everywhere

section L4
open Matrix
variable {K : Type*} [Field K] [LinearOrder K] [IsStrictOrderedRing K]
variable {m k r : Type*} [Fintype m] [Fintype k] [Fintype r]

/-- C03.c (L4): with `T` the matrix whose rows are the sum-rule functionals `t_r` (class-space rows of `c_sum_cplmt`),
    `C` the compression matrix and ANY divisor ν > 0 (N or n_lp·N, as extracted), a vector is in the unit eigenspace
    of the matrix handed to the eigen-solver, `1 − CᵀTᵀTC/ν`, iff every sum-rule functional vanishes on `C v`. -/
theorem unit_eigenspace_is_the_sum_rule_kernel [DecidableEq k] (C : Matrix m k K) (T : Matrix r m K) (ν : K) (hν : 0 < ν)
    (v : k → K) :
    ((1 : Matrix k k K) - (1 / ν) • (Cᵀ * Tᵀ * T * C)) *ᵥ v = v ↔ T *ᵥ (C *ᵥ v) = 0 :=
  LinAlg.sumrule_unit_iff C T ν hν v

end L4

section FirstOrder
open Matrix

/-- C03 for the exported FIRST-ORDER basis, tie to the code (extracted): the sum-rule matrix of `matrix_tools_O1` has the
    single entry `1/√N` at `(3 i + a, a)` per row, the matrix handed to the eigen-solver is `1 − (TC)ᵀ(TC)`, and
    `FCBasisSetO1.run` is the pipeline `c_trans · eigsh(coset) · eigsh(sum rule)`. -/
theorem first_order_code_shape : Gen.o1SumRuleTiledIdentity = true ∧ Gen.o1PipelineShape = true := by decide

/-- … the kernel of that matrix is exactly the acoustic sum rule `Σ_i Φ[i a] = 0` for every Cartesian component -/
theorem first_order_sum_rule_rows {K : Type*} [Field K] (N : Nat) (w : K) (hw : w ≠ 0) (x : Fin N × Fin 3 → K) :
    (O1.sumRuleO1 N w) *ᵥ x = 0 ↔ ∀ a : Fin 3, ∑ i : Fin N, x (i, a) = 0 :=
  O1.sumRuleO1_kernel N w hw x

/-- … so (eigen contract assumed) the exported first-order basis `c_trans · W₂ · W₃` spans EXACTLY the first-order
    tensors that are translation invariant (range of `c_trans`), invariant under the space group (`P x = x`) and obey
    the sum rule in every Cartesian component. -/
theorem first_order_basis_spans_exactly_the_admissible_space {K : Type*} [Field K] [LinearOrder K]
    [IsStrictOrderedRing K] {N : Nat} {k₁ k₂ k₃ : Type*} [Fintype k₁] [Fintype k₂] [Fintype k₃]
    [DecidableEq k₁] [DecidableEq k₂] [DecidableEq k₃]
    (A : Matrix (Fin N × Fin 3) k₁ K) (P : Matrix (Fin N × Fin 3) (Fin N × Fin 3) K) (w : K) (hw : w ≠ 0)
    (W₂ : Matrix k₁ k₂ K) (W₃ : Matrix k₂ k₃ K)
    (hA : Aᵀ * A = 1) (h₂ : Pipeline.EigBasis (Aᵀ * P * A) W₂)
    (h₃ : Pipeline.EigBasis (Pipeline.sumruleProj (A * W₂) (O1.sumRuleO1 N w) 1) W₃)
    (hPs : Pᵀ = P) (hPi : P * P = P) (x : Fin N × Fin 3 → K) :
    (∃ c : k₃ → K, x = (A * W₂ * W₃) *ᵥ c) ↔
      ((∃ y : k₁ → K, x = A *ᵥ y) ∧ P *ᵥ x = x ∧ ∀ a : Fin 3, ∑ i : Fin N, x (i, a) = 0) := by
  rw [Pipeline.pipeline_range A P (O1.sumRuleO1 N w) 1 W₂ W₃ hA h₂ h₃ hPs hPi one_pos x,
    O1.sumRuleO1_kernel N w hw x]

end FirstOrder

section Capstone
open Matrix
variable {K : Type*} [Field K] [LinearOrder K] [IsStrictOrderedRing K]
variable {n k k₂ k₃ r : Type*} [Fintype n] [Fintype k] [Fintype k₂] [DecidableEq k₂] [Fintype k₃] [DecidableEq k₃]
  [Fintype r]

/-- C03, capstone (K3): EVERY tensor `x = B c` expanded in the returned basis `B = A W₂ W₃` obeys the sum rule `T x = 0`.
    Symbols: `T` = the sum-rule matrix on class space whose rows are the functionals `x ↦ Σ_i Φ[i a, j b, …]` (one row
    per fixed `(a, j b, …)`: `one_row_per_fixed_indices`, `row_is_the_translational_sum`); `ν > 0` the extracted divisor
    (`divisor_positive`); `A W₂` = `n_a_compress_mat = c_pt · c_rpt` (here ANY matrices); `W₃` = `eigvecs` =
    `eigsh_projector_sumrule(1 − (1/ν)(A W₂)ᵀ Tᵀ T (A W₂))` under the eigen contract `EigBasis`. With
    `sum_rule_on_every_index_for_every_atom` the sum rule then holds on every index for every atom. -/
theorem every_basis_vector_obeys_the_sum_rule (A : Matrix n k K) (T : Matrix r n K) (ν : K)
    (W₂ : Matrix k k₂ K) (W₃ : Matrix k₂ k₃ K)
    (h₃ : Pipeline.EigBasis (Pipeline.sumruleProj (A * W₂) T ν) W₃) (hν : 0 < ν) (c : k₃ → K) :
    T *ᵥ ((A * W₂ * W₃) *ᵥ c) = 0 :=
  Corollaries.basis_vectors_obey_the_sum_rule A T ν W₂ W₃ h₃ hν c

end Capstone

end Symfc.C03
