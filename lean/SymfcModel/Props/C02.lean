/-
  Props/C02.lean — invariance under every space-group operation. PROPERTY THEOREMS ONLY.
-/
import SymfcModel.Model.Inst
import SymfcModel.Model.Coset
namespace Symfc.C02
open Symfc

/-- C02.a: the fast coset projectors (orders 3, 4) restrict columns to tuples whose first atom is independent and
    use the factor 1/|unique rotations|; the reference (`_stable`, and order 2) variants use all tuples and the extra
    factor 1/n_lp. (The translator refuses any other mask/factor pairing.) -/
theorem coset_mask_matches_factor :
    Gen.cosetFastMaskO2_fast = false ∧ Gen.cosetFastMaskO3_fast = true ∧ Gen.cosetFastMaskO3_stable = false ∧
    Gen.cosetFastMaskO4_fast = true ∧ Gen.cosetFastMaskO4_stable = false := by decide

end Symfc.C02
