/-
  Props/C02.lean — invariance under every space-group operation. PROPERTY THEOREMS ONLY.
-/
import SymfcModel.Model.Inst
import SymfcModel.Model.Coset
import SymfcModel.Lemmas.Chunk
import SymfcModel.Lemmas.LinAlg
namespace Symfc.C02
open Symfc

/-- C02.a: the fast coset projectors (orders 3, 4) restrict columns to tuples whose first atom is independent and
    use the factor 1/|unique rotations|; the reference (`_stable`, and order 2) variants use all tuples and the extra
    factor 1/n_lp. (The translator refuses any other mask/factor pairing.) -/
theorem coset_mask_matches_factor :
    Gen.cosetFastMaskO2_fast = false ∧ Gen.cosetFastMaskO3_fast = true ∧ Gen.cosetFastMaskO3_stable = false ∧
    Gen.cosetFastMaskO4_fast = true ∧ Gen.cosetFastMaskO4_stable = false := by decide

/-- C02.b: the coset average is accumulated in `n_cosets` partial sums (`cosets[i % n_cosets] += mat`, then
    `sum(cosets)`); for every `n_cosets ≥ 1` and every list of summands this equals the plain sum, so every
    operation contributes exactly once whatever the number of unique rotations. -/
theorem chunked_coset_sum_is_the_plain_sum {α} (add : α → α → α) (zero : α)
    (hassoc : ∀ a b c, add (add a b) c = add a (add b c)) (hcomm : ∀ a b, add a b = add b a)
    (hzero : ∀ a, add zero a = a) (nCosets : Nat) (hn : 1 ≤ nCosets) (mats : List α) :
    chunkedSum add zero nCosets mats = mats.foldl add zero :=
  chunkedSum_eq_foldl add zero hassoc hcomm hzero nCosets hn mats

section L3
open Matrix
variable {K : Type*} [Field K] [LinearOrder K] [IsStrictOrderedRing K]
variable {m k : Type*} [Fintype m] [Fintype k]

/-- C02.c (L3): for `C` with orthonormal columns (`c_pt`) and `P` an orthogonal projector (the average of the
    space-group representation), the unit eigenvectors of the compressed matrix `CᵀPC` handed to `eigsh_projector`
    are exactly the `v` whose expansion `C v` is fixed by `P`: `range(C E₁) = range C ∩ Fix P`. -/
theorem compressed_projector_unit_eigenvectors [DecidableEq m] [DecidableEq k] (C : Matrix m k K) (hC : Cᵀ * C = 1)
    (P : Matrix m m K) (hPs : Pᵀ = P) (hPi : P * P = P) (v : k → K) :
    (Cᵀ * P * C) *ᵥ v = v ↔ P *ᵥ (C *ᵥ v) = C *ᵥ v :=
  LinAlg.compressed_projector_unit_iff C hC P hPs hPi v

end L3

end Symfc.C02
