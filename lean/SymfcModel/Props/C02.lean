/-
  Props/C02.lean — invariance under every space-group operation. PROPERTY THEOREMS ONLY.
-/
import SymfcModel.Model.Inst
import SymfcModel.Model.Coset
import SymfcModel.Lemmas.Chunk
import SymfcModel.Lemmas.LinAlg
import SymfcModel.Lemmas.Coset
import SymfcModel.Lemmas.GroupAvg
import SymfcModel.Lemmas.Corollaries
namespace Symfc.C02
open Symfc

/-- C02.a: the fast coset projectors (orders 3, 4) restrict columns to tuples whose first atom is independent and
    use the factor 1/|unique rotations|; the reference (`_stable`, and order 2) variants use all tuples and the extra
    factor 1/n_lp. (The translator refuses any other mask/factor pairing.) -/
theorem coset_mask_matches_factor :
    Gen.cosetFastMaskO2_fast = false ∧ Gen.cosetFastMaskO3_fast = true ∧ Gen.cosetFastMaskO3_stable = false ∧
    Gen.cosetFastMaskO4_fast = true ∧ Gen.cosetFastMaskO4_stable = false := by decide

/-- C02.b: the coset average is accumulated in `n_cosets` partial sums (`cosets[i % n_cosets] += mat`, then
    `sum(cosets)`); for every `n_cosets ≥ 1` and every list of summands this equals the plain sum, so every
    operation contributes exactly once whatever the number of unique rotations. -/
theorem chunked_coset_sum_is_the_plain_sum {α} (add : α → α → α) (zero : α)
    (hassoc : ∀ a b c, add (add a b) c = add a (add b c)) (hcomm : ∀ a b, add a b = add b a)
    (hzero : ∀ a, add zero a = a) (nCosets : Nat) (hn : 1 ≤ nCosets) (mats : List α) :
    chunkedSum add zero nCosets mats = mats.foldl add zero :=
  chunkedSum_eq_foldl add zero hassoc hcomm hzero nCosets hn mats

/-- C02.d: the action of atom permutations on atom tuples is a homomorphism (`sigma n (g∘h) = sigma n g ∘ sigma n h`) -/
theorem tuple_representation_is_a_homomorphism (N n : Nat) (g h gh : Array Nat)
    (hh : ∀ a, a < N → h.getD a 0 < N) (hgh : ∀ a, a < N → gh.getD a 0 = g.getD (h.getD a 0) 0)
    (t : Nat) (ht : t < N ^ n) :
    (sigmaRep N n gh none).getD t 0 = (sigmaRep N n g none).getD ((sigmaRep N n h none).getD t 0) 0 :=
  Coset.sigmaRep_comp N n g h gh hh hgh t ht

/-- C02.a: an atom permutation `g` that normalises the lattice translations maps translation classes to translation
    classes, injectively: the class of `g·t` depends exactly on the class of `t`. -/
theorem operation_acts_on_classes (c : Cell) (hwf : c.wf = true) (n : Nat) (hn : 1 ≤ n) (g : Array Nat)
    (hg : Coset.Normalises c g) (t t' : List Nat) (htl : t.length = n) (ht : ∀ x, x ∈ t → x < c.N)
    (htl' : t'.length = n) (ht' : ∀ x, x ∈ t' → x < c.N) :
    (c.atomicDecompr n).getD (flat c.N (t.map (fun a => g.getD a 0))) 0
      = (c.atomicDecompr n).getD (flat c.N (t'.map (fun a => g.getD a 0))) 0 ↔
    (c.atomicDecompr n).getD (flat c.N t) 0 = (c.atomicDecompr n).getD (flat c.N t') 0 :=
  Coset.class_map_iff c hwf n hn g hg t t' htl ht htl' ht'

/-- C02.a (fast variant, no cutoff): the integer matrix built for one operation has, for EVERY class exactly once as
    column, the class of its image as row: it IS the permutation matrix that `g` induces on classes. -/
theorem fast_coset_matrix_is_the_induced_permutation (c : Cell) (hwf : c.wf = true) (n : Nat) (hn : 1 ≤ n)
    (g : Array Nat) (hg : Coset.Normalises c g) (t : List Nat) (htl : t.length = n) (ht : ∀ x, x ∈ t → x < c.N) :
    ((cosetPairs c n g true none).map Prod.snd).Perm (List.range (c.indepAtoms.length * c.N ^ (n - 1))) ∧
    (cosetPairs c n g true none).count
        ((c.atomicDecompr n).getD (flat c.N (t.map (fun a => g.getD a 0))) 0,
          (c.atomicDecompr n).getD (flat c.N t) 0) = 1 :=
  ⟨Coset.cosetPairs_fast_snd_perm c hwf n hn g, Coset.cosetPairs_fast_count c hwf n hn g hg t htl ht⟩

/-- C02.a / C11.d: the reference (`_stable`) variant lists every entry exactly `n_lp` times as often as the fast one —
    which is exactly compensated by its extra factor 1/n_lp (`coset_mask_matches_factor`): both are the same matrix. -/
theorem stable_variant_is_nlp_times_the_fast_one (c : Cell) (hwf : c.wf = true) (n : Nat) (hn : 1 ≤ n)
    (g : Array Nat) (hg : Coset.Normalises c g) (r v : Nat) :
    (cosetPairs c n g false none).count (r, v) = c.nlp * (cosetPairs c n g true none).count (r, v) :=
  Coset.cosetPairs_stable_eq_nlp_mul_fast c hwf n hn g hg r v

section Average
open Matrix GroupAvg
variable {K : Type*} [Field K] [LinearOrder K] [IsStrictOrderedRing K]
variable {G : Type*} [Group G] [Fintype G] {n k : Type*} [Fintype n] [DecidableEq n] [Fintype k] [DecidableEq k]

/-- C02.c: the average of an orthogonal representation ρ of a finite group (here: of the point group on class space,
    ρ(g) = permutation induced on classes ⊗ R_g^{⊗n}) is the ORTHOGONAL PROJECTOR onto the invariant vectors:
    `P² = P`, `Pᵀ = P`, `P v = v ⇔ ∀ g, ρ(g) v = v`, and `ρ(h) P = P = P ρ(h)`. -/
theorem group_average_is_the_projector_onto_invariants (ρ : G → Matrix n n K)
    (hmul : ∀ g h, ρ (g * h) = ρ g * ρ h) (hone : ρ 1 = 1) (horth : ∀ g, (ρ g)ᵀ = ρ g⁻¹)
    (P : Matrix n n K) (hP : P = (1 / (Fintype.card G : K)) • ∑ g, ρ g) :
    (∀ h, ρ h * P = P ∧ P * ρ h = P) ∧ P * P = P ∧ Pᵀ = P ∧ ∀ v : n → K, P *ᵥ v = v ↔ ∀ g, ρ g *ᵥ v = v :=
  avg_is_invariant_projector ρ hmul hone horth P hP

/-- C02.c: hence the unit eigenvectors of the compressed matrix `Cᵀ P C` handed to `eigsh_projector` are exactly the
    coefficient vectors whose expansion is invariant under EVERY operation of the group (all of them, not only
    generators or coset representatives). -/
theorem unit_eigenvectors_are_invariant_under_every_operation {ρ : G → Matrix n n K} (hρ : OrthRep ρ)
    (C : Matrix n k K) (hC : Cᵀ * C = 1) (v : k → K) :
    (Cᵀ * avg ρ * C) *ᵥ v = v ↔ ∀ g, ρ g *ᵥ (C *ᵥ v) = C *ᵥ v :=
  G6 hρ C hC v

omit [LinearOrder K] [IsStrictOrderedRing K] in
/-- C02: averaging over the unique rotations only (the quotient of the space group by the lattice translations) equals
    averaging over the whole group whenever the representation factors through the quotient — which it does on
    translation-class space. -/
theorem averaging_over_the_quotient_suffices [CharZero K] {H : Type*} [Group H] [Fintype H] (π : G →* H)
    (hπ : Function.Surjective π) (ρ : G → Matrix n n K) (ρ' : H → Matrix n n K) (hfac : ∀ g, ρ g = ρ' (π g)) :
    avg ρ = avg ρ' :=
  G5 π hπ ρ ρ' hfac

end Average

section L3
open Matrix
variable {K : Type*} [Field K] [LinearOrder K] [IsStrictOrderedRing K]
variable {m k : Type*} [Fintype m] [Fintype k]

/-- C02.c (L3): for `C` with orthonormal columns (`c_pt`) and `P` an orthogonal projector (the average of the
    space-group representation), the unit eigenvectors of the compressed matrix `CᵀPC` handed to `eigsh_projector`
    are exactly the `v` whose expansion `C v` is fixed by `P`: `range(C E₁) = range C ∩ Fix P`. -/
theorem compressed_projector_unit_eigenvectors [DecidableEq m] [DecidableEq k] (C : Matrix m k K) (hC : Cᵀ * C = 1)
    (P : Matrix m m K) (hPs : Pᵀ = P) (hPi : P * P = P) (v : k → K) :
    (Cᵀ * P * C) *ᵥ v = v ↔ P *ᵥ (C *ᵥ v) = C *ᵥ v :=
  LinAlg.compressed_projector_unit_iff C hC P hPs hPi v

end L3

section Capstone
open Matrix GroupAvg
variable {K : Type*} [Field K] [LinearOrder K] [IsStrictOrderedRing K]
variable {H : Type*} [Group H] [Fintype H] {n k k₂ k₃ : Type*} [Fintype n] [DecidableEq n] [Fintype k] [DecidableEq k]
  [Fintype k₂] [DecidableEq k₂] [Fintype k₃]

/-- C02, capstone (K2): EVERY tensor `x = B c` expanded in the returned basis `B = A W₂ W₃` is invariant under EVERY
    operation. Symbols: `ρ h` = the orthogonal matrix by which operation `h` of the finite group of coset
    representatives (unique rotations) acts on class space (induced permutation of classes ⊗ R_h^{⊗n}); the coset
    projector is `avg ρ = (1/|H|) Σ_h ρ h` — symmetric and idempotent by `group_average_is_the_projector_onto_invariants`,
    not assumed; `A` = `c_pt` (orthonormal columns, `hA`; for the indicator matrix this is `LinAlg.indicator_orthonormal`);
    `W₂` = `c_rpt` = `eigsh_projector(Aᵀ P A)` under the eigen contract `EigBasis`; `W₃` (`eigvecs`) may be ANY matrix. -/
theorem every_basis_vector_is_invariant_under_every_operation {ρ : H → Matrix n n K} (hρ : OrthRep ρ)
    (A : Matrix n k K) (hA : Aᵀ * A = 1) (W₂ : Matrix k k₂ K) (W₃ : Matrix k₂ k₃ K)
    (h₂ : Pipeline.EigBasis (Aᵀ * avg ρ * A) W₂) (c : k₃ → K) :
    ∀ h, ρ h *ᵥ ((A * W₂ * W₃) *ᵥ c) = (A * W₂ * W₃) *ᵥ c :=
  Corollaries.basis_vectors_are_invariant_under_the_group hρ A hA W₂ W₃ h₂ c

end Capstone

end Symfc.C02
