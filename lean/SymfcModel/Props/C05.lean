/-
  Props/C05.lean — noise-free data from admissible force constants are recovered exactly.
  PROPERTY THEOREMS ONLY.
-/
import SymfcModel.Model.Inst
import SymfcModel.Lemmas.Chain
import SymfcModel.Lemmas.Design
import SymfcModel.Lemmas.Pipeline
import SymfcModel.Gen.ApiDataflow
namespace Symfc.C05
open Symfc

/-- C05.a: the constants multiplying the compression matrices are the Taylor coefficients −1/(n−1)!
    (times 6: −6, −3, −1) in every one of the six solvers, for exactly the orders that solver fits. -/
theorem taylor_constants :
    Gen.solverConst6 =
      [("O2", [(2, -6)]), ("O3", [(3, -3)]), ("O4", [(4, -1)]), ("O2O3", [(2, -6), (3, -3)]),
       ("O3O4", [(3, -3), (4, -1)]), ("O2O3O4", [(2, -6), (3, -3), (4, -1)])] := by decide

/-- C05.a (FC2): the generated divmod chain of `reshape_nN33_nx_to_N3_n3nx` sends the stored entry of atom pair
    (il, j), Cartesian (a, b), column `col` to row `(j,b)` (the displacement component it multiplies) and to the column
    block `(il, a)` (the force component it contributes to) — for every N, nx and every index. -/
theorem reshape_O2_is_the_taylor_layout (N nx il j a b col : Nat) (hj : j < N) (ha : a < 3) (hb : b < 3) :
    Gen.chainO2.run N nx (((il * N + j) * 3 + a) * 3 + b) col = (3 * j + b, col + (3 * il + a) * nx) :=
  chainO2_run N nx il j a b col hj ha hb

/-- C05.a (FC3): row ↦ index of `u_{jb} u_{kc}` in the flattened outer product, column block `(il, a)` -/
theorem reshape_O3_is_the_taylor_layout (N nx il j k a b c col : Nat) (hj : j < N) (hk : k < N)
    (ha : a < 3) (hb : b < 3) (hc : c < 3) :
    Gen.chainO3.run N nx ((((il * N + j) * N + k) * 27) + (a * 9 + b * 3 + c)) col
      = ((3 * j + b) * (3 * N) + (3 * k + c), col + (3 * il + a) * nx) :=
  chainO3_run N nx il j k a b c col hj hk ha hb hc

/-- C05.a (FC4): row ↦ index of `u_{jb} u_{kc} u_{ld}`, column block `(il, a)` -/
theorem reshape_O4_is_the_taylor_layout (N nx il j k l a b c d col : Nat) (hj : j < N) (hk : k < N) (hl : l < N)
    (ha : a < 3) (hb : b < 3) (hc : c < 3) (hd : d < 3) :
    Gen.chainO4.run N nx (((((il * N + j) * N + k) * N + l) * 81) + (a * 27 + b * 9 + c * 3 + d)) col
      = (((3 * j + b) * (3 * N) + (3 * k + c)) * (3 * N) + (3 * l + d), col + (3 * il + a) * nx) :=
  chainO4_run N nx il j k l a b c d col hj hk hl ha hb hc hd

/-- the reshaped matrices have the shapes the displacement monomials need: 3N, (3N)², (3N)³ rows -/
theorem reshape_output_rows (N nx : Nat) :
    Gen.chainO2.outRows.eval N nx = 3 * N ∧ Gen.chainO3.outRows.eval N nx = 9 * N ^ 2 ∧
    Gen.chainO4.outRows.eval N nx = 27 * N ^ 3 :=
  ⟨chainO2_outRows N nx, chainO3_outRows N nx, chainO4_outRows N nx⟩

/-- C05.a, THE DESIGN MATRIX IS THE TAYLOR FORCE MODEL: for every cell size N ≥ 1, every order k ∈ {2,3,4}, every
    atom batch [bi, ei), every compression matrix `cc` (columns < nx) and every list of displacement snapshots, the
    entry (snapshot s, atom bi+il, component a; column x) of the matrix the code builds — rows of `cc` expanded through
    the class index, pushed through the generated divmod chain, multiplied with displacement monomials — equals
    `const · Σ_{(j,b),(k,c),…} cc[class(i,j,k,…)·3^k + (a,b,c,…), x] · u_{jb} u_{kc} …`. -/
theorem design_matrix_is_the_taylor_expansion (c : Cell) (od : OrderData) (hk : od.k = 2 ∨ od.k = 3 ∨ od.k = 4)
    (hch : od.chain = chainFor od.k) (hN : 1 ≤ c.N)
    (hcol : ∀ row, ∀ cv ∈ od.cc.getD row [], cv.1 < od.nx)
    (us : List (Array Int)) (bi ei : Nat) :
    (designBlockOp c od us bi ei).size = us.length * (ei - bi) * 3 ∧
    ∀ s il a, s < us.length → il < ei - bi → a < 3 →
      ((designBlockOp c od us bi ei).getD (s * ((ei - bi) * 3) + il * 3 + a) #[]).size = od.nx ∧
      ∀ x, x < od.nx →
        ((designBlockOp c od us bi ei).getD (s * ((ei - bi) * 3) + il * 3 + a) #[]).getD x 0
          = designEntrySpec c od (us.getD s #[]) (bi + il) a x :=
  D1 c od hk hch hN hcol us bi ei

/-- C05.a / C06.a: the normal equations accumulated by the code over ANY atom-batch size and ANY snapshot-batch size,
    for ANY list of fitted orders (joint design matrix `[X₂ | X₃ | X₄]`), are exactly the Gram matrix and right-hand
    side of the full Taylor design matrix (rows = all (snapshot, atom, component)). -/
theorem accumulated_normal_equations_are_those_of_the_taylor_model (c : Cell) (ods : List OrderData)
    (hods : ∀ od ∈ ods, (od.k = 2 ∨ od.k = 3 ∨ od.k = 4) ∧ od.chain = chainFor od.k ∧
      ∀ row, ∀ cv ∈ od.cc.getD row [], cv.1 < od.nx)
    (hN : 1 ≤ c.N) (us fs : List (Array Int)) (hfs : fs.length = us.length) (hS : 0 < us.length)
    (atomBatch snapBatch : Nat) (hba : 0 < atomBatch) (hbs : 0 < snapBatch) :
    normalEqOp c ods us fs atomBatch snapBatch = some (normalEqSpec c ods us fs) :=
  D2 c ods hods hN us fs hfs hS atomBatch snapBatch hba hbs

/-- C05, the capstone: if the forces are `y = X x₀` for an ADMISSIBLE tensor `x₀` (in the range of the compression,
    space-group invariant, obeying the sum rule), the compressed design matrix `X B` is injective (enough snapshots)
    and `c` solves the normal equations `(XB)ᵀ(XB) c = (XB)ᵀ y` (what `solve_linear_equation` returns when `posv`
    succeeds), then the returned force constants `B c` ARE `x₀` — exactly, over any ordered field. Together with
    `design_matrix_is_the_taylor_expansion` (`X` is the Taylor model) and
    `accumulated_normal_equations_are_those_of_the_taylor_model` (the code accumulates exactly these equations). -/
theorem admissible_force_constants_are_recovered_exactly {K : Type*} [Field K] [LinearOrder K] [IsStrictOrderedRing K]
    {m k₁ k₂ k₃ r r' : Type*} [Fintype m] [Fintype k₁] [Fintype k₂] [Fintype k₃] [Fintype r] [Fintype r']
    [DecidableEq m] [DecidableEq k₁] [DecidableEq k₂] [DecidableEq k₃]
    (A : Matrix m k₁ K) (P : Matrix m m K) (T : Matrix r m K) (ν : K) (W₂ : Matrix k₁ k₂ K) (W₃ : Matrix k₂ k₃ K)
    (hA : A.transpose * A = 1) (h₂ : Pipeline.EigBasis (A.transpose * P * A) W₂)
    (h₃ : Pipeline.EigBasis (Pipeline.sumruleProj (A * W₂) T ν) W₃)
    (hPs : P.transpose = P) (hPi : P * P = P) (hν : 0 < ν)
    (X : Matrix r' m K) (x₀ : m → K)
    (hx₀ : (∃ y : k₁ → K, x₀ = A.mulVec y) ∧ P.mulVec x₀ = x₀ ∧ T.mulVec x₀ = 0)
    (hinj : Function.Injective (X * (A * W₂ * W₃)).mulVec) (c : k₃ → K)
    (hc : ((X * (A * W₂ * W₃)).transpose * (X * (A * W₂ * W₃))).mulVec c
            = (X * (A * W₂ * W₃)).transpose.mulVec (X.mulVec x₀)) :
    (A * W₂ * W₃).mulVec c = x₀ :=
  Pipeline.exact_recovery A P T ν W₂ W₃ hA h₂ h₃ hPs hPi hν X x₀ hx₀ hinj c hc

/-- the API hands the dataset it stores — unchanged, whole, in the stored order — to every solver, and a dispatch branch
    of `Symfc.solve` does nothing but look the basis sets up, call the solver, select the layout and store the result
    (facts regenerated from api_symfc.py): the theorems of this file about the fit therefore speak about what a user
    gets from `Symfc.run` / `Symfc.solve` for the arrays supplied -/
theorem api_hands_the_stored_dataset_unchanged_to_every_solver :
    Gen.solveTopLevel = ["self._check_dataset()", "orders = self._check_orders(max_order, orders)", "<dispatch>",
                         "return self"]
    ∧ Gen.solverDatasetArgs = List.replicate 6 ["self._displacements", "self._forces"]
    ∧ Gen.solverBasisArgs = ["2", "3", "4", "[2,3]", "[3,4]", "[2,3,4]"]
    ∧ Gen.solveBranchKinds = [["basis", "solve", "select"], ["basis", "solve", "select"], ["basis", "solve", "select"],
                              ["basis", "basis", "solve", "select", "store", "store"],
                              ["basis", "basis", "solve", "select", "store", "store"],
                              ["basis", "basis", "basis", "solve", "select", "store", "store", "store"]] := by
  decide

end Symfc.C05
