/-
  Props/C05.lean — noise-free data from admissible force constants are recovered exactly.
  PROPERTY THEOREMS ONLY.
-/
import SymfcModel.Model.Inst
namespace Symfc.C05
open Symfc

/-- C05.a: the constants multiplying the compression matrices are the Taylor coefficients −1/(n−1)!
    (times 6: −6, −3, −1) in every one of the six solvers, for exactly the orders that solver fits. -/
theorem taylor_constants :
    Gen.solverConst6 =
      [("O2", [(2, -6)]), ("O3", [(3, -3)]), ("O4", [(4, -1)]), ("O2O3", [(2, -6), (3, -3)]),
       ("O3O4", [(3, -3), (4, -1)]), ("O2O3O4", [(2, -6), (3, -3), (4, -1)])] := by decide

end Symfc.C05
