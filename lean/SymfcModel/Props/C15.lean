/-
  Props/C15.lean — projector eigen-solvers return the unit eigenspace. PROPERTY THEOREMS ONLY.
-/
import SymfcModel.Model.Eig
import SymfcModel.Gen.Eig
import SymfcModel.Lemmas.EigBook
import SymfcModel.Lemmas.LinAlg
import SymfcModel.Lemmas.EigAssemble
import SymfcModel.Lemmas.BlockDiag
import SymfcModel.Lemmas.FindBlocks
import SymfcModel.Lemmas.Deflation
import SymfcModel.Lemmas.DeflationBlocks
namespace Symfc.C15
open Symfc

/-- C15.b: a 1×1 block is kept iff its value is (close to) 1 — after the fix of F5 -/
theorem one_by_one_rule_is_close_to_one : Gen.oneByOneRule = OneByOneRule.keepIfCloseOne := by decide

/-- C15.b: with that rule a 1×1 block of value v/den is kept iff v = den; the old rule (`not close to 0`) kept
    every non-zero value: witness diag(1, 1/2, 0, 1/4) → kept 3 of 4 (the negation that was finding F5). -/
theorem one_by_one_kept_iff (v den : Int) : oneByOneKeeps Gen.oneByOneRule v den = (v == den) := by
  have : Gen.oneByOneRule = .keepIfCloseOne := by decide
  rw [this]; rfl

theorem old_rule_keeps_non_unit_values :
    ([4, 2, 0, 1].filter (fun v => oneByOneKeeps .keepIfNotCloseZero v 4)).length = 3 ∧
    ([4, 2, 0, 1].filter (fun v => oneByOneKeeps Gen.oneByOneRule v 4)).length = 1 := by decide

/-- C15.c: sub-blocks without a unit eigenvector contribute all their coordinates to the complement (fix of F4) -/
theorem skipped_sub_blocks_enter_complement : Gen.skippedSubBlockInComplement = true := by decide

/-- C15.c: with the extracted rule (skipped sub-blocks enter the complement) the eigenvector columns and the
    complement columns found in the sub-block loop always add up to the full block size: no coordinate is lost before
    the complementary problem is solved. -/
theorem block_divided_bookkeeping_is_complete (sizes : List Nat) (solved : List Bool) (found : List Nat)
    (h1 : sizes.length = solved.length) (h2 : solved.length = found.length)
    (hle : ∀ i (h1 : i < sizes.length) (h2 : i < found.length), found[i] ≤ sizes[i]) :
    (blockBookkeeping Gen.skippedSubBlockInComplement sizes solved found).1 +
    (blockBookkeeping Gen.skippedSubBlockInComplement sizes solved found).2 = sizes.sum := by
  have : Gen.skippedSubBlockInComplement = true := by decide
  rw [this]; exact blockBookkeeping_skipped_total sizes solved found h1 h2 hle

/-- C15.c, negation for the rule the code had before the fix of F4: as soon as one non-empty sub-block is skipped,
    coordinates are missing from the complement (witness: sizes [2,1], second sub-block skipped: 2 of 3). -/
theorem old_bookkeeping_loses_coordinates :
    blockBookkeeping false [2, 1] [true, false] [0, 0] = (0, 2) ∧ [2, 1].sum = 3 := by decide

/-- C15.d: the rank short-cut `int(round(trace)) == 0` fires only when trace ≤ 1/2 < 1; a matrix 0 ≤ M with a unit
    eigenvector has trace ≥ 1, so nothing is dropped by it. -/
theorem rank_zero_shortcut_needs_trace_below_one (t den : Int) (ht : 0 ≤ t) (hden : 0 < den)
    (h : roundHalfEven t den = 0) : 2 * t ≤ den ∧ t < den :=
  ⟨roundHalfEven_zero_imp t den ht hden h, roundHalfEven_zero_lt_one t den ht hden h⟩

/-- the sub-block size of the large path is never 0 (clamped to [lo, hi] as extracted) -/
theorem sub_block_size_positive (p : Nat) :
    0 < targetSize Gen.eigTargetDiv Gen.eigTargetLo Gen.eigTargetHi p := by
  have h := targetSize_bounds_gen Gen.eigTargetDiv Gen.eigTargetLo Gen.eigTargetHi p (by decide)
  have : 0 < Gen.eigTargetLo := by decide
  omega

/-- C15.a (placement, for the blocks and the duplicate-block dictionary the model computes from ANY matrix and ANY
    numbers of eigenvectors per unique block): no output position is written twice, every output column is supported
    inside ONE block, and a block that shares a unique solve owns exactly `ncols` consecutive columns. -/
theorem assembly_writes_disjoint_blocks (rule : OneByOneRule) (m : IMat) (den : Int) (ncols : List Nat) :
    let blocks := findBlocks m
    let ents := (eigshPlan rule m den blocks).1
    let out := (placement blocks ents ncols).1
    (out.map (fun t => (t.1, t.2.1))).Nodup ∧
    (∀ t ∈ out, ∀ t' ∈ out, ∀ b b', t.1 ∈ blocks.getD b [] → t'.1 ∈ blocks.getD b' [] → b ≠ b' →
      t.2.1 ≠ t'.2.1) ∧
    (∀ e seq (he : e < ents.length) (hs : seq < ents[e].labels.length), ∀ t ∈ out,
      (t.1 ∈ blocks.getD ents[e].labels[seq] [] ↔
        colBase ents ncols e + seq * ncols.getD e 0 ≤ t.2.1 ∧
        t.2.1 < colBase ents ncols e + seq * ncols.getD e 0 + ncols.getD e 0)) :=
  eigsh_placement rule m den ncols

/-- C15.a (L5): for a block-diagonal matrix, per-block orthonormal bases of the per-block unit eigenspaces, each column
    placed on the rows of its block, form an orthonormal basis of the unit eigenspace of the whole matrix:
    `EᵀE = 1`, `M E = E`, and `M x = x ↔ x ∈ range E`. Identical blocks may share one basis; zero rows contribute
    nothing (`eigvec_zero_of_zero_row`). -/
theorem block_assembly_spans_exactly_the_unit_eigenspace {K ι κ β : Type*} [CommRing K] [Fintype ι] [Fintype κ]
    [Fintype β] [DecidableEq κ] [DecidableEq β] (blk : ι → β) (owner : κ → β) (M : Matrix ι ι K) (E : Matrix ι κ K)
    (hM : BlockDiag.IsBlockDiag blk M) (hsupp : BlockDiag.ColSupported blk owner E)
    (horth : ∀ k k', owner k = owner k' → ∑ i, E i k * E i k' = if k = k' then 1 else 0)
    (heig : ∀ k i, blk i = owner k → ∑ j, (if blk j = owner k then M i j * E j k else 0) = E i k)
    (hspan : ∀ b (x : ι → K), (∀ i, blk i ≠ b → x i = 0) → M.mulVec x = x →
      ∃ a : κ → K, (∀ k, owner k ≠ b → a k = 0) ∧ x = E.mulVec a) :
    E.transpose * E = 1 ∧ M * E = E ∧ ∀ x, M.mulVec x = x ↔ ∃ a, x = E.mulVec a :=
  BlockDiag.blockwise_eigvecs blk owner M E hM hsupp horth heig hspan

/-- C15.a (block finder, F1): for ANY matrix the blocks computed by the model's `findBlocks` (the model of
    `_find_projector_blocks`) partition the indices `0 … n-1`: every block is non-empty and strictly ascending, the
    blocks are pairwise disjoint, an index lies in some block iff it is `< n`, no index occurs twice, the head of a
    block is its smallest element and the blocks are listed in increasing order of that element. -/
theorem found_blocks_partition_the_indices (m : IMat) :
    (∀ b ∈ findBlocks m, b ≠ []) ∧
    (∀ b ∈ findBlocks m, b.Pairwise (· < ·)) ∧
    (findBlocks m).Pairwise (fun b c => ∀ x, x ∈ b → x ∉ c) ∧
    (∀ x, x < m.size ↔ ∃ b ∈ findBlocks m, x ∈ b) ∧
    (findBlocks m).flatten.Nodup ∧
    (∀ b ∈ findBlocks m, ∀ x ∈ b, b.headD 0 ≤ x) ∧
    (findBlocks m).Pairwise (fun b c => b.headD 0 < c.headD 0) :=
  FindBlocks.findBlocks_partition m

/-- C15.a (block finder, F2): the matrix IS block diagonal with respect to the blocks the model finds — the hypothesis
    `hM` of `block_assembly_spans_exactly_the_unit_eigenspace` is discharged for the model's own block finder.
    Entries joining two different blocks vanish in both directions; for a square matrix the same holds for every pair
    of indices not sharing a block (including indices `≥ n`). The label propagation runs at most `n` sweeps; the proof
    shows that `n` sweeps always reach the fixed point. -/
theorem found_blocks_are_block_diagonal (m : IMat) :
    (∀ b ∈ findBlocks m, ∀ c ∈ findBlocks m, b ≠ c → ∀ i ∈ b, ∀ j ∈ c, m.get i j = 0 ∧ m.get j i = 0) ∧
    (m.square = true → ∀ i j, (¬ ∃ b ∈ findBlocks m, i ∈ b ∧ j ∈ b) → m.get i j = 0 ∧ m.get j i = 0) :=
  ⟨FindBlocks.findBlocks_block_diagonal m, FindBlocks.findBlocks_block_diagonal_square m⟩

/-- C15.a (F2 in the form of `BlockDiag.IsBlockDiag`): with `blk i` = the label the block finder gives to `i` (two
    indices share a block of `findBlocks m` iff their labels agree), the matrix of `m` over any commutative ring is
    block diagonal. -/
theorem found_blocks_satisfy_IsBlockDiag {K : Type*} [CommRing K] (m : IMat) :
    BlockDiag.IsBlockDiag (fun i : Fin m.size => FindBlocks.blockLabel m i.val)
      (Matrix.of fun i j : Fin m.size => ((m.get i.val j.val : Int) : K)) ∧
    ∀ i j : Fin m.size, FindBlocks.blockLabel m i.val = FindBlocks.blockLabel m j.val ↔
      ∃ b ∈ findBlocks m, i.val ∈ b ∧ j.val ∈ b := by
  refine ⟨fun i j h => ?_, fun i j => ?_⟩
  · have := (FindBlocks.blockLabel_block_diagonal m i.2 j.2 h).1
    simp [this]
  · rw [FindBlocks.same_block_iff]
    exact ⟨fun h => ⟨i.2, j.2, h⟩, fun h => h.2.2⟩

/-- C15.a (block finder, F3, minimality): the blocks are not coarser than necessary — two indices of one block are
    joined by a path of indices of that block along non-zero entries (`m[k][k'] ≠ 0` or `m[k'][k] ≠ 0`). -/
theorem found_blocks_are_connected (m : IMat) :
    ∀ b ∈ findBlocks m, ∀ i ∈ b, ∀ j ∈ b,
      ∃ l : List Nat, l.head? = some i ∧ l.getLast? = some j ∧ (∀ k ∈ l, k ∈ b) ∧
        ∀ s (hs : s + 1 < l.length), m.get l[s] l[s + 1] ≠ 0 ∨ m.get l[s + 1] l[s] ≠ 0 :=
  FindBlocks.findBlocks_connected m

/-- C15: rows/columns that are entirely zero carry no unit eigenvector, so compressing them away loses nothing -/
theorem zero_rows_carry_no_unit_eigenvector {K ι : Type*} [CommRing K] [Fintype ι] (M : Matrix ι ι K) (S : ι → Prop)
    (hS : ∀ i, ¬ S i → ∀ j, M i j = 0) (x : ι → K) (hx : M.mulVec x = x) : ∀ i, ¬ S i → x i = 0 :=
  BlockDiag.eigvec_zero_of_zero_row M S hS x hx

section L3
open Matrix
variable {K : Type*} [Field K] [LinearOrder K] [IsStrictOrderedRing K]
variable {n : Type*} [Fintype n]

/-- C15 (L3): for symmetric `A` with `xᵀAx ≤ xᵀx` (eigenvalues ≤ 1), `xᵀAx = xᵀx` already forces `A x = x`:
    nothing with eigenvalue below 1 can have unit Rayleigh quotient. -/
theorem unit_rayleigh_quotient_is_unit_eigenvector [DecidableEq n] (A : Matrix n n K) (hA : Aᵀ = A)
    (hle : ∀ x : n → K, x ⬝ᵥ (A *ᵥ x) ≤ x ⬝ᵥ x) (x : n → K) (hx : x ⬝ᵥ (A *ᵥ x) = x ⬝ᵥ x) : A *ᵥ x = x :=
  LinAlg.unit_eigvec_of_quadratic A hA hle x hx

/-- C15.c: a unit eigenvector of a principal sub-block (coordinates `S`), padded with zeros, is a unit eigenvector
    of the whole matrix — the step on which the block-divided solver and the per-block solvers rest. -/
theorem sub_block_unit_eigenvector_lifts [DecidableEq n] (A : Matrix n n K) (hA : Aᵀ = A)
    (hle : ∀ x : n → K, x ⬝ᵥ (A *ᵥ x) ≤ x ⬝ᵥ x) (S : Finset n) (x : n → K)
    (hsupp : ∀ i, i ∉ S → x i = 0) (hS : ∀ i ∈ S, (A *ᵥ x) i = x i) : A *ᵥ x = x :=
  LinAlg.subblock_unit_eigvec A hA hle S x hsupp hS

/-- C15.c (deflation step of `_block_eigh_projector`, the block-divided / large path): unit eigenvectors `V` found in
    the sub-blocks are removed (`p_block -= V Vᵀ`), the rest is compressed with the complement columns `Q` (`cmplt`) and
    solved, the answer is `[V, Q W]`. For ANY symmetric contraction `A` (a projector or `1 − TᵀT/ν`), any `V` with
    `A V = V`, any `Q` with orthonormal columns such that `[V Q]` is an orthogonal matrix: `x` is a unit eigenvector of
    `A` IFF `x = V a + Q w` with `w` a unit eigenvector of the compressed deflated matrix `Qᵀ (A − V Vᵀ) Q` — nothing
    below eigenvalue 1 enters through the complementary problem and no unit direction is dropped by it. (The eigen
    kernel's own acceptance window on SUB-blocks is finding F8, outside this exact statement.) -/
theorem block_divided_deflation_is_exact {k q : Type*} [Fintype k] [Fintype q] [DecidableEq n] [DecidableEq k]
    [DecidableEq q] (A : Matrix n n K) (hA : Aᵀ = A) (hle : ∀ x : n → K, x ⬝ᵥ (A *ᵥ x) ≤ x ⬝ᵥ x)
    (V : Matrix n k K) (hAV : A * V = V) (Q : Matrix n q K) (hQ : Qᵀ * Q = 1) (hVQ : Vᵀ * Q = 0)
    (hsplit : V * Vᵀ + Q * Qᵀ = 1) (x : n → K) :
    A *ᵥ x = x ↔ ∃ (a : k → K) (w : q → K),
      (Qᵀ * (A - V * Vᵀ) * Q) *ᵥ w = w ∧ x = V *ᵥ a + Q *ᵥ w :=
  Deflation.deflation_exact A hA hle V hAV Q hQ hVQ hsplit x

/-- C15: the compression step used by every solver (`compr.T @ p @ compr` after dropping zero rows, and the
    complementary problem above) for a contraction that need not be idempotent: the unit eigenvectors of `CᵀAC` are
    exactly the `v` whose expansion `C v` is a unit eigenvector of `A`. -/
theorem compressed_contraction_unit_eigenvectors {k : Type*} [Fintype k] [DecidableEq n] [DecidableEq k]
    (C : Matrix n k K) (hC : Cᵀ * C = 1) (A : Matrix n n K) (hA : Aᵀ = A)
    (hle : ∀ x : n → K, x ⬝ᵥ (A *ᵥ x) ≤ x ⬝ᵥ x) (v : k → K) :
    (Cᵀ * A * C) *ᵥ v = v ↔ A *ᵥ (C *ᵥ v) = C *ᵥ v :=
  Deflation.compressed_contraction_unit_iff C hC A hA hle v

end L3

section Assembly
open Matrix
variable {K : Type*} [Field K] {o : Type*} [Fintype o] [DecidableEq o]
variable {m' k' q' : o → Type*} [∀ i, Fintype (m' i)] [∀ i, DecidableEq (m' i)]
  [∀ i, Fintype (k' i)] [∀ i, DecidableEq (k' i)] [∀ i, Fintype (q' i)] [∀ i, DecidableEq (q' i)]

/-- C15.c: what the sub-block loop of `_block_eigh_projector` assembles meets the hypotheses of
    `block_divided_deflation_is_exact`. `eigvecs_block` is the block-diagonal of the sub-block eigenvectors `V_s`, `cmplt`
    the block-diagonal of the sub-block complements `Q_s`; if in every sub-block `[V_s Q_s]` is orthogonal (for a skipped
    sub-block: no eigenvector column and the identity as complement, `skipped_sub_block_is_complete` — the fix of F4),
    then `Q` has orthonormal columns, `VᵀQ = 0` and `V Vᵀ + Q Qᵀ = 1` for the whole block. A sub-block left out of the
    complement (the old code, seeded change b06) is exactly a failure of the last identity. -/
theorem block_divided_assembly_meets_the_deflation_hypotheses (V : ∀ i, Matrix (m' i) (k' i) K)
    (Q : ∀ i, Matrix (m' i) (q' i) K) (hQ : ∀ i, (Q i)ᵀ * Q i = 1) (hVQ : ∀ i, (V i)ᵀ * Q i = 0)
    (hsplit : ∀ i, V i * (V i)ᵀ + Q i * (Q i)ᵀ = 1) :
    (blockDiagonal' Q)ᵀ * blockDiagonal' Q = 1 ∧ (blockDiagonal' V)ᵀ * blockDiagonal' Q = 0 ∧
      blockDiagonal' V * (blockDiagonal' V)ᵀ + blockDiagonal' Q * (blockDiagonal' Q)ᵀ = 1 :=
  ⟨Deflation.assembled_complement_is_orthonormal Q hQ, Deflation.assembled_columns_are_orthogonal V Q hVQ,
    Deflation.assembled_columns_split_the_identity V Q hsplit⟩

/-- C15.c: a skipped sub-block — no eigenvector column, identity complement — satisfies the per-sub-block hypothesis. -/
theorem skipped_sub_block_is_complete {μ : Type*} [Fintype μ] [DecidableEq μ] (V : Matrix μ Empty K) :
    V * Vᵀ + (1 : Matrix μ μ K) * (1 : Matrix μ μ K)ᵀ = 1 :=
  Deflation.skipped_sub_block_splits V

end Assembly

end Symfc.C15
