/-
  Props/C15.lean — projector eigen-solvers return the unit eigenspace. PROPERTY THEOREMS ONLY.
-/
import SymfcModel.Model.Eig
import SymfcModel.Gen.Eig
namespace Symfc.C15
open Symfc

/-- C15.b: a 1×1 block is kept iff its value is (close to) 1 — after the fix of F5 -/
theorem one_by_one_rule_is_close_to_one : Gen.oneByOneRule = OneByOneRule.keepIfCloseOne := by decide

/-- C15.b: with that rule a 1×1 block of value v/den is kept iff v = den; the old rule (`not close to 0`) kept
    every non-zero value: witness diag(1, 1/2, 0, 1/4) → kept 3 of 4 (the negation that was finding F5). -/
theorem one_by_one_kept_iff (v den : Int) : oneByOneKeeps Gen.oneByOneRule v den = (v == den) := by
  have : Gen.oneByOneRule = .keepIfCloseOne := by decide
  rw [this]; rfl

theorem old_rule_keeps_non_unit_values :
    ([4, 2, 0, 1].filter (fun v => oneByOneKeeps .keepIfNotCloseZero v 4)).length = 3 ∧
    ([4, 2, 0, 1].filter (fun v => oneByOneKeeps Gen.oneByOneRule v 4)).length = 1 := by decide

/-- C15.c: sub-blocks without a unit eigenvector contribute all their coordinates to the complement (fix of F4) -/
theorem skipped_sub_blocks_enter_complement : Gen.skippedSubBlockInComplement = true := by decide

end Symfc.C15
