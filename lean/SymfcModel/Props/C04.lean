/-
  Props/C04.lean — completeness: the arrangement tables cover every index-equality pattern exactly once.
  PROPERTY THEOREMS ONLY.
-/
import SymfcModel.Model.Tables
import SymfcModel.Gen.PermTables
namespace Symfc.C04
open Symfc

/-- C04.a (order 2): both patterns `(p,p)` and `(p,q)`: every arrangement exactly once. -/
theorem tables_complete_O2 : Gen.stagesO2.all (tableComplete 2) = true ∧ stagesDistinct Gen.stagesO2 = true := by
  decide

/-- C04.a (order 3): the 5 set partitions of 3 positions = 1 + 6 + 6 arrangements, each exactly once. -/
theorem tables_complete_O3 : Gen.stagesO3.all (tableComplete 3) = true ∧ stagesDistinct Gen.stagesO3 = true := by
  decide

/-- C04.a is FALSE at order 4 (finding F1): the two-entry stage lists 8 of the 14 arrangements. -/
theorem tables_incomplete_O4 : Gen.stagesO4.all (tableComplete 4) = false := by
  decide

/-- …and what is missing is exactly the pattern `(p,p,q,q)` (6 arrangements); all other stages are complete. -/
theorem o4_tables_miss_exactly_ppqq :
    (Gen.stagesO4.filter (fun st => !tableComplete 4 st)).map (·.combOrder) = [2] ∧
    (surjections 4 2).filter (fun a => !((Gen.stagesO4.flatMap (·.perms)).contains a)) =
      [[0,0,1,1],[0,1,0,1],[0,1,1,0],[1,0,0,1],[1,0,1,0],[1,1,0,0]] := by
  decide

/-- C04_O4_partial: relative to the patterns that ARE listed, order 4 has no duplicate and no foreign arrangement. -/
theorem C04_O4_partial :
    Gen.stagesO4.all (fun st => (sortLists st.perms).all (fun a => (surjections 4 st.combOrder).contains a)) = true ∧
    stagesDistinct Gen.stagesO4 = true ∧ Gen.stagesO4.all (stageSound 4) = true := by
  decide

/-- the reference (projector) variants in `matrix_tools_O{3,4}` use the same tables as the fast path -/
theorem projector_tables_agree :
    Gen.projTablesO3 = Gen.stagesO3.map (·.perms) ∧
    Gen.projTablesO4 = (Gen.stagesO4.drop 1).map (·.perms) ∧
    Gen.projGroupsO3 = Gen.stagesO3.map (·.nPermsGroup) ∧
    Gen.projTablesO2 = (Gen.stagesO2.drop 1).map (·.perms) := by
  decide

end Symfc.C04
