/-
  Props/C04.lean — completeness: the arrangement tables cover every index-equality pattern exactly once.
  PROPERTY THEOREMS ONLY.
-/
import SymfcModel.Model.Tables
import SymfcModel.Gen.PermTables
import SymfcModel.Lemmas.Coverage
import SymfcModel.Lemmas.Pipeline
import SymfcModel.Gen.PipelineFlow
import SymfcModel.Lemmas.Corollaries
namespace Symfc.C04
open Symfc

/-- C04.a (order 2): both patterns `(p,p)` and `(p,q)`: every arrangement exactly once. -/
theorem tables_complete_O2 : Gen.stagesO2.all (tableComplete 2) = true ∧ stagesDistinct Gen.stagesO2 = true := by
  decide

/-- C04.a (order 3): the 5 set partitions of 3 positions = 1 + 6 + 6 arrangements, each exactly once. -/
theorem tables_complete_O3 : Gen.stagesO3.all (tableComplete 3) = true ∧ stagesDistinct Gen.stagesO3 = true := by
  decide

/-- C04.a is FALSE at order 4 (finding F1): the two-entry stage lists 8 of the 14 arrangements. -/
theorem tables_incomplete_O4 : Gen.stagesO4.all (tableComplete 4) = false := by
  decide

/-- …and what is missing is exactly the pattern `(p,p,q,q)` (6 arrangements); all other stages are complete. -/
theorem o4_tables_miss_exactly_ppqq :
    (Gen.stagesO4.filter (fun st => !tableComplete 4 st)).map (·.combOrder) = [2] ∧
    (surjections 4 2).filter (fun a => !((Gen.stagesO4.flatMap (·.perms)).contains a)) =
      [[0,0,1,1],[0,1,0,1],[0,1,1,0],[1,0,0,1],[1,0,1,0],[1,1,0,0]] := by
  decide

/-- C04_O4_partial: relative to the patterns that ARE listed, order 4 has no duplicate and no foreign arrangement. -/
theorem C04_O4_partial :
    Gen.stagesO4.all (fun st => (sortLists st.perms).all (fun a => (surjections 4 st.combOrder).contains a)) = true ∧
    stagesDistinct Gen.stagesO4 = true ∧ Gen.stagesO4.all (stageSound 4) = true := by
  decide

/-- the reference (projector) variants in `matrix_tools_O{3,4}` use the same tables as the fast path -/
theorem projector_tables_agree :
    Gen.projTablesO3 = Gen.stagesO3.map (·.perms) ∧
    Gen.projTablesO4 = (Gen.stagesO4.drop 1).map (·.perms) ∧
    Gen.projGroupsO3 = Gen.stagesO3.map (·.nPermsGroup) ∧
    Gen.projTablesO2 = (Gen.stagesO2.drop 1).map (·.perms) := by
  decide

/-- C04.b (orders 2 and 3, no cutoff): EVERY class-space element is written by the permutation stage — nothing is
    eliminated as a "zero element", for every well-formed supercell and every batch split. With C01 (components = whole
    S_n×T orbits) the columns of `c_pt` are exactly the normalised indicators of ALL orbits: `range c_pt` is the whole
    space of index-permutation-symmetric, translation-invariant tensors. -/
theorem every_element_is_covered_O2_O3 (c : Cell) (hwf : c.wf = true) (n : Nat) (hn : n = 2 ∨ n = 3)
    (nBatch : String → Nat) (ptr' : Array Int)
    (h : permDecompr Gen.cutoffOps c n (repFor n) (stagesFor n) none nBatch = some ptr') :
    ∀ e, e < c.N ^ n * 3 ^ n / c.nlp → covered ptr' e :=
  Cov.V1_covered c hwf hn nBatch ptr' h

/-- C04.b, order 4 — what IS covered: an element is written iff its index pattern is not (p,p,q,q) (and, with a
    cutoff, its atoms are pairwise near). So relative to the listed patterns order 4 is complete … -/
theorem order4_covered_iff_not_ppqq (c : Cell) (hwf : c.wf = true) (cut : Option CutoffIn)
    (hcut : ∀ x, cut = some x → Cov.CutOK c x) (nBatch : String → Nat) (ptr' : Array Int)
    (h : permDecompr Gen.cutoffOps c 4 Gen.repKindO4 Gen.stagesO4 cut nBatch = some ptr')
    (t : List Nat) (hlen : t.length = 4) (hlt : ∀ e ∈ t, e < 3 * c.N) :
    covered ptr' (elemIdx c.N (c.atomicDecompr 4) t) ↔ Cov.ppqq t = false ∧ Cov.admissible cut t :=
  Cov.V3_covered c hwf cut hcut nBatch ptr' h t hlen hlt

/-- … and the NEGATION of C04 at order 4 on the model (finding F1), for every supercell: an element whose four
    (atom, Cartesian) index pairs are two distinct pairs, each twice, is never written, hence eliminated and forced to
    zero in every basis vector. -/
theorem order4_ppqq_elements_are_forced_to_zero (c : Cell) (hwf : c.wf = true) (cut : Option CutoffIn)
    (hcutN : ∀ x, cut = some x → x.N = c.N) (nBatch : String → Nat) (ptr' : Array Int)
    (h : permDecompr Gen.cutoffOps c 4 Gen.repKindO4 Gen.stagesO4 cut nBatch = some ptr')
    (t : List Nat) (hlen : t.length = 4) (hlt : ∀ e ∈ t, e < 3 * c.N) (hp : Cov.ppqq t = true) :
    ¬ covered ptr' (elemIdx c.N (c.atomicDecompr 4) t) :=
  Cov.V3_ppqq_never_covered c hwf cut hcutN nBatch ptr' h t hlen hlt hp

theorem ppqq_means_two_pairs_each_twice (t : List Nat) :
    Cov.ppqq t = true ↔ t.length = 4 ∧ ∃ a b, a ≠ b ∧ t.count a = 2 ∧ t.count b = 2 :=
  Cov.ppqq_iff_counts t

/-- C04, the linear-algebra end of the pipeline (`FCBasisSetO{2,3,4}.run`): with `A = c_pt` (orthonormal columns),
    `P` the coset projector (symmetric idempotent), `W₂ = eigsh_projector(Aᵀ P A)`, `T` the sum-rule matrix,
    `W₃ = eigsh_projector_sumrule(1 − (1/ν)(A W₂)ᵀ Tᵀ T (A W₂))` — where the eigen-solvers are only assumed to return
    an orthonormal basis of the eigenvalue-1 eigenspace (`EigBasis`, the trusted eigen contract; C15 is about the
    solvers keeping it) — the returned basis `B = A W₂ W₃` spans EXACTLY the tensors that are in the range of `A`
    (index-permutation and translation invariant, zero beyond the cutoff), fixed by `P` (space-group invariant) and
    annihilated by `T` (sum rule). Nothing admissible is missing and nothing inadmissible is included; no commutation
    between the three constraints is needed. -/
theorem basis_spans_exactly_the_admissible_space {K : Type*} [Field K] [LinearOrder K] [IsStrictOrderedRing K]
    {m k₁ k₂ k₃ r : Type*} [Fintype m] [Fintype k₁] [Fintype k₂] [Fintype k₃] [Fintype r]
    [DecidableEq m] [DecidableEq k₁] [DecidableEq k₂] [DecidableEq k₃]
    (A : Matrix m k₁ K) (P : Matrix m m K) (T : Matrix r m K) (ν : K) (W₂ : Matrix k₁ k₂ K) (W₃ : Matrix k₂ k₃ K)
    (hA : A.transpose * A = 1) (h₂ : Pipeline.EigBasis (A.transpose * P * A) W₂)
    (h₃ : Pipeline.EigBasis (Pipeline.sumruleProj (A * W₂) T ν) W₃)
    (hPs : P.transpose = P) (hPi : P * P = P) (hν : 0 < ν) (x : m → K) :
    (∃ w : k₃ → K, x = (A * W₂ * W₃).mulVec w) ↔
      ((∃ y : k₁ → K, x = A.mulVec y) ∧ P.mulVec x = x ∧ T.mulVec x = 0) :=
  Pipeline.pipeline_range A P T ν W₂ W₃ hA h₂ h₃ hPs hPi hν x

/-- … and every admissible tensor is reproduced from its coefficients `Bᵀ x`, which are unique. -/
theorem every_admissible_tensor_is_a_unique_combination {K : Type*} [Field K] [LinearOrder K] [IsStrictOrderedRing K]
    {m k₁ k₂ k₃ r : Type*} [Fintype m] [Fintype k₁] [Fintype k₂] [Fintype k₃] [Fintype r]
    [DecidableEq m] [DecidableEq k₁] [DecidableEq k₂] [DecidableEq k₃]
    (A : Matrix m k₁ K) (P : Matrix m m K) (T : Matrix r m K) (ν : K) (W₂ : Matrix k₁ k₂ K) (W₃ : Matrix k₂ k₃ K)
    (hA : A.transpose * A = 1) (h₂ : Pipeline.EigBasis (A.transpose * P * A) W₂)
    (h₃ : Pipeline.EigBasis (Pipeline.sumruleProj (A * W₂) T ν) W₃)
    (hPs : P.transpose = P) (hPi : P * P = P) (hν : 0 < ν) (x : m → K)
    (hx : (∃ y : k₁ → K, x = A.mulVec y) ∧ P.mulVec x = x ∧ T.mulVec x = 0) :
    (A * W₂ * W₃).mulVec ((A * W₂ * W₃).transpose.mulVec x) = x ∧
      ∀ w : k₃ → K, (A * W₂ * W₃).mulVec w = x → w = (A * W₂ * W₃).transpose.mulVec x :=
  Pipeline.pipeline_complete A P T ν W₂ W₃ hA h₂ h₃ hPs hPi hν x hx

/-- C04, tie of the pipeline theorem to the code (extracted dataflow of `FCBasisSetO{2,3,4}.run`): the permutation stage
    gives `c_pt` (= A), the coset projector is compressed by `c_pt` and its unit eigenvectors are `c_rpt` (= W₂), the
    product `c_pt · c_rpt` is what the sum-rule projector is compressed by, its unit eigenvectors `eigvecs` (= W₃) are
    stored as the basis set next to `n_a_compression_matrix = c_pt · c_rpt` — for all three orders the same three-stage
    shape (order 2 has the optional rotational sum rule, off by default and outside the sixteen properties). -/
theorem run_is_the_three_stage_pipeline :
    Gen.runFlowO2 =
  [("c_pt", "compr_permutation_lat_trans_O2", ["trans_perms"]),
   ("proj_rpt", "get_compr_coset_projector_O2", ["c_pt=c_pt"]),
   ("c_rpt", "eigsh_projector", ["proj_rpt"]),
   ("n_a_compress_mat", "dot_product_sparse", ["c_pt", "c_rpt"]),
   ("proj", "compressed_projector_sum_rules_O2", ["trans_perms", "n_a_compress_mat"]),
   ("eigvecs", "eigsh_projector_sumrule", ["proj"]),
   ("self._basis_set", "=", ["eigvecs"]),
   ("self._n_a_compression_matrix", "=", ["n_a_compress_mat"])] ∧
    Gen.runFlowO3 =
  [("c_pt", "compr_permutation_lat_trans_O3", ["trans_perms"]),
   ("proj_rpt", "get_compr_coset_projector_O3", ["c_pt=c_pt"]),
   ("c_rpt", "eigsh_projector", ["proj_rpt"]),
   ("n_a_compress_mat", "dot_product_sparse", ["c_pt", "c_rpt"]),
   ("proj", "compressed_projector_sum_rules_O3", ["trans_perms", "n_a_compress_mat"]),
   ("eigvecs", "eigsh_projector_sumrule", ["proj"]),
   ("self._basis_set", "=", ["eigvecs"]),
   ("self._n_a_compression_matrix", "=", ["n_a_compress_mat"])] ∧
    Gen.runFlowO4 =
  [("c_pt", "compr_permutation_lat_trans_O4", ["trans_perms"]),
   ("proj_rpt", "get_compr_coset_projector_O4", ["c_pt=c_pt"]),
   ("c_rpt", "eigsh_projector", ["proj_rpt"]),
   ("n_a_compress_mat", "dot_product_sparse", ["c_pt", "c_rpt"]),
   ("proj", "compressed_projector_sum_rules_O4", ["trans_perms", "n_a_compress_mat"]),
   ("eigvecs", "eigsh_projector_sumrule", ["proj"]),
   ("self._basis_set", "=", ["eigvecs"]),
   ("self._n_a_compression_matrix", "=", ["n_a_compress_mat"])] ∧
    Gen.runFlowOptionalO2 = [("proj", "OPTIONAL(rotational_sum_rules) -=", ["complementary_compr_projector_rot_sum_rules_O2"])] ∧
    Gen.runFlowOptionalO3 = [] ∧ Gen.runFlowOptionalO4 = [] := by
  decide

/-- C04, capstone (K4): the returned basis `B = A W₂ W₃` spans EXACTLY the admissible space, stated in terms of the
    symmetries themselves. Symbols: `A` = `c_pt` = normalised indicator matrix (`w j` = 1/√|class j|) of `label` = the
    connected components of the permutation stage = the S_n × T orbits (`C01.C01_order2/3/4`), i.e. the orbits of the
    family `g s` of index permutations combined with lattice translations; `label i = none` = eliminated element;
    `ρ h` = orthogonal action of operation `h` (coset representatives / unique rotations) on class space, coset projector
    `avg ρ`; `T` = sum-rule matrix with rows `Σ_i Φ[i a, j b, …]`, divisor `ν > 0`; `W₂` = `eigsh_projector(Aᵀ P A)`,
    `W₃` = `eigsh_projector_sumrule(…)` under the eigen contract. `Aᵀ A = 1` and `P` symmetric idempotent are DERIVED.
    A tensor is a combination of basis vectors iff it vanishes on eliminated elements, is invariant under every index
    permutation / lattice translation, is invariant under every operation, and obeys the sum rule. -/
theorem basis_is_exactly_the_admissible_space {K : Type*} [Field K] [LinearOrder K] [IsStrictOrderedRing K]
    {n k k₂ k₃ r G H : Type*} [Fintype n] [Fintype k] [Fintype k₂] [Fintype k₃] [Fintype r]
    [DecidableEq n] [DecidableEq k] [DecidableEq k₂] [DecidableEq k₃] [Group H] [Fintype H]
    (label : n → Option k) (w : k → K)
    (hcount : ∀ j, (w j) ^ 2 * ((Finset.univ.filter (fun i => label i = some j)).card : K) = 1)
    (g : G → Equiv.Perm n)
    (horbit : ∀ i j, label i ≠ none → (label i = label j ↔ ∃ s : G, g s i = j))
    (hnone : ∀ s i, label i = none → label (g s i) = none)
    (A : Matrix n k K) (hAdef : A = Matrix.of (fun i j => if label i = some j then w j else 0))
    {ρ : H → Matrix n n K} (hρ : GroupAvg.OrthRep ρ) (T : Matrix r n K) (ν : K) (hν : 0 < ν)
    (W₂ : Matrix k k₂ K) (W₃ : Matrix k₂ k₃ K)
    (h₂ : Pipeline.EigBasis (A.transpose * GroupAvg.avg ρ * A) W₂)
    (h₃ : Pipeline.EigBasis (Pipeline.sumruleProj (A * W₂) T ν) W₃) (x : n → K) :
    (∃ c : k₃ → K, x = (A * W₂ * W₃).mulVec c) ↔
      ((∀ i, label i = none → x i = 0) ∧ (∀ s i, x (g s i) = x i) ∧
        (∀ h, (ρ h).mulVec x = x) ∧ T.mulVec x = 0) :=
  Corollaries.basis_is_exactly_the_admissible_space label w hcount g horbit hnone A hAdef hρ T ν hν W₂ W₃ h₂ h₃ x

end Symfc.C04
