/-
  Props/C12.lean — a solve depends only on its inputs, not on the object's history.
  PROPERTY THEOREMS ONLY.
-/
import SymfcModel.Lemmas.Api
import SymfcModel.Lemmas.ApiMulti
import SymfcModel.Gen.SolverState
import SymfcModel.Gen.Purity
import SymfcModel.Gen.ApiAccess
namespace Symfc.C12
open Symfc

/-- the inputs of a solve: supercell size, dataset, the basis sets looked up by the request -/
def sameInputs (s t : ApiState) : Prop :=
  s.natom = t.natom ∧ s.disp = t.disp ∧ s.forces = t.forces ∧ ∀ k, dictGet s.basis k = dictGet t.basis k

/-- C12.b (static alias obligations extracted from the solvers): every compression matrix that a solver
    scales in place (`*= const … /= const`) is the value of an accessor that builds a fresh matrix, and `posv`
    is called without overwriting its arguments; so a solver cannot modify a stored basis set. -/
theorem solvers_scale_fresh_copies_only : Gen.accessorFresh = [(2, true), (3, true), (4, true)] := by
  decide

theorem solveStep_inputs_only_aux (cfg : ApiCfg) (s t : ApiState) (h : sameInputs s t)
    (m : Option Nat) (o : Option (List Nat)) (c : Bool) :
    checkDataset cfg s = checkDataset cfg t := by
  obtain ⟨hn, hd, hf, _⟩ := h
  unfold checkDataset
  congr 1
  funext g
  cases g <;> simp [guardFails, hn, hd, hf]

/-- C12.a: two objects with the same inputs — whatever their histories and whatever results they already hold —
    accept/reject a request alike, and after a successful solve hold identical values under every key the
    request writes. -/
theorem solve_depends_only_on_inputs (s t : ApiState) (h : sameInputs s t)
    (m : Option Nat) (o : Option (List Nat)) (c : Bool) (os : List Nat)
    (ho : checkOrders genApiCfg m o = .ok os) :
    (solveStep genApiCfg s m o c).2 = (solveStep genApiCfg t m o c).2 ∧
    ((solveStep genApiCfg s m o c).1 ≠ s →
      ∀ k ∈ os, dictGet (solveStep genApiCfg s m o c).1.fc k = dictGet (solveStep genApiCfg t m o c).1.fc k) := by
  have hds := solveStep_inputs_only_aux genApiCfg s t h m o c
  obtain ⟨hn, hd, hf, hb⟩ := h
  have hbases : ∀ keys : List Nat, keys.map (dictGet s.basis) = keys.map (dictGet t.basis) := by
    intro keys; exact List.map_congr_left (fun k _ => hb k)
  constructor
  · unfold solveStep
    rw [hds, ho]
    cases checkDataset genApiCfg t with
    | some e => rfl
    | none =>
      simp only
      cases hbr : genApiCfg.branches.find? (fun b => b.orders == os) with
      | none => rfl
      | some b =>
        simp only [hbases]
        cases allSome (b.basisKeys.map (dictGet t.basis)) with
        | none => rfl
        | some bases => rw [hd, hf]; cases t.disp <;> cases t.forces <;> rfl
  · intro hs k hk
    rcases solveStep_cases genApiCfg s m o c with h1 | ⟨os', b, bases, d, f, h1, ho', hb', h4, h5, h6, _, h8⟩
    · exact absurd h1 hs
    · rw [ho] at ho'; cases ho'
      have ht : (solveStep genApiCfg t m o c).1 =
          { t with fc := b.fcKeys.foldl (fun fc k => dictSet fc k (solvedVal b bases d f c k)) t.fc } := by
        unfold solveStep
        rw [← hds, h1, ho]
        simp only [hb', ← hbases, h4, ← hd, ← hf, h5, h6, solvedVal]
      rw [h8, ht]
      simp only
      rw [dictGet_foldl_dictSet, dictGet_foldl_dictSet]
      have hbm : b ∈ genApiCfg.branches := List.mem_of_find?_eq_some hb'
      have hbo : b.orders = os := by
        have := List.find?_some hb'; simpa using this
      have hkeys : b.fcKeys = b.orders := by
        have hall : genApiCfg.branches.all (fun b => b.fcKeys == b.orders) = true := by decide
        have := List.all_eq_true.mp hall b hbm
        simpa using this
      have : k ∈ b.fcKeys := by rw [hkeys, hbo]; exact hk
      simp [this]

/-- "freshly created object": same inputs, no stored results -/
def fresh (s : ApiState) : ApiState := { s with fc := [] }

/-- C12.a, headline form: after ANY finite history of API calls, the entries a solve writes equal those a fresh
    object writes for the same supercell, dataset, basis sets and request. -/
theorem solve_after_any_history_equals_fresh (s0 : ApiState) (ops : List ApiOp)
    (m : Option Nat) (o : Option (List Nat)) (c : Bool) (os : List Nat)
    (ho : checkOrders genApiCfg m o = .ok os) :
    let s := runOps genApiCfg s0 ops
    (solveStep genApiCfg s m o c).1 ≠ s →
      ∀ k ∈ os, dictGet (solveStep genApiCfg s m o c).1.fc k =
                dictGet (solveStep genApiCfg (fresh s) m o c).1.fc k := by
  intro s hs k hk
  exact (solve_depends_only_on_inputs s (fresh s) ⟨rfl, rfl, rfl, fun _ => rfl⟩ m o c os ho).2 hs k hk

/-- C12: solving never modifies the dataset, the basis sets, the cutoffs or the supercell held by the object -/
theorem solve_preserves_inputs (s : ApiState) (m : Option Nat) (o : Option (List Nat)) (c : Bool) :
    let s' := (solveStep genApiCfg s m o c).1
    s'.basis = s.basis ∧ s'.disp = s.disp ∧ s'.forces = s.forces ∧ s'.cutoff = s.cutoff ∧ s'.natom = s.natom := by
  rcases solveStep_cases genApiCfg s m o c with h1 | ⟨_, _, _, _, _, _, _, _, _, _, _, _, h8⟩
  · simp [h1]
  · simp [h8]

/-- C12: repeating a solve reproduces its result (same values under the written keys) -/
theorem repeated_solve_reproduces (s : ApiState) (m : Option Nat) (o : Option (List Nat)) (c : Bool) (os : List Nat)
    (ho : checkOrders genApiCfg m o = .ok os) (hs : (solveStep genApiCfg s m o c).1 ≠ s) :
    ∀ k ∈ os, dictGet (solveStep genApiCfg (solveStep genApiCfg s m o c).1 m o c).1.fc k =
              dictGet (solveStep genApiCfg s m o c).1.fc k := by
  intro k hk
  obtain ⟨hb, hd, hf, _, hn⟩ := solve_preserves_inputs s m o c
  have hsame : sameInputs s (solveStep genApiCfg s m o c).1 :=
    ⟨hn.symm, hd.symm, hf.symm, fun k => by rw [hb]⟩
  have h2 := (solve_depends_only_on_inputs s _ hsame m o c os ho).2 hs k hk
  exact h2.symm

/-- non-vacuity: a concrete object with data and basis sets on which `solve [3,2]` succeeds and changes the state -/
def demoState : ApiState :=
  { natom := 2, cfgId := 1, cutoff := [], disp := some ⟨1, [5, 2, 3]⟩, forces := some ⟨2, [5, 2, 3]⟩,
    basis := [(2, { order := 2, cfgId := 1, cutoff := none }), (3, { order := 3, cfgId := 1, cutoff := some 4 })],
    fc := [] }

example : ((solveStep genApiCfg demoState none (some [3, 2]) true).1 != demoState) = true ∧
    (solveStep genApiCfg demoState none (some [3, 2]) true).2 = none := by
  constructor <;> decide

/-- C12.e (process-level history, extracted from EVERY module of the package): no function writes to a module-level
    object, uses `global`/`nonlocal`, a cache decorator, a function attribute, a class-level mutable attribute or a
    mutable default argument — the code has no place where an earlier call (another supercell, another cutoff, operations
    supplied by the caller) could leave something behind for a later one; this is what makes the pure-function model
    of the pipeline adequate. -/
theorem no_state_survives_a_call : Gen.hiddenState = [] := by decide

/-- C12.e' (the API object and the caller's arrays, extracted from class `Symfc`): the dataset setters store a fresh copy
    (`np.array(...)`) and no method writes INTO an array — the only subscript stores are the result, basis-set and
    cutoff dictionaries. Hence neither a setter nor a solve can reach the caller's arrays or another object's data
    through the API object. -/
theorem api_stores_copies_and_never_writes_into_arrays :
    Gen.apiSettersCopy = true ∧ Gen.apiArrayWrites = [] := by decide

/-- C12.f (solver OBJECTS, extracted from the six solver classes): the result accessors (`full_fc`, `compact_fc`,
    `_recover_fcs`) read nothing but the coefficients of the last solve (and the constructor inputs), they and every
    other non-solve method write nothing, `solve` writes nothing but the coefficients, and the constructors create no
    further state — so there is no place where a previous solve could survive. -/
theorem solver_objects_keep_only_the_coefficients :
    Gen.solverObjectState.map (·.1) = ["O2", "O3", "O4", "O2O3", "O3O4", "O2O3O4"] ∧
    Gen.solverObjectState.all (fun r => r.2.1 == ["_coefs"] && r.2.2.1 == [] && r.2.2.2.1 == ["_coefs"]
      && r.2.2.2.2 == []) = true := by decide

/-- … and the consequence for a re-used solver object: model the object as the one field `coefs` that `solve`
    overwrites with a function `fit` of the (fixed) basis sets and the dataset of that call, and the accessor as a
    function `expand` of the basis sets and that field. After ANY sequence of solves the accessor returns what a
    fresh object returns for the LAST dataset alone. -/
theorem reused_solver_object_equals_fresh {B D C R : Type} (fit : B → D → C) (expand : B → C → R) (b : B)
    (history : List D) (last : D) (c₀ : Option C) :
    ((history ++ [last]).foldl (fun (_ : Option C) d => some (fit b d)) c₀).map (expand b) =
      (([last] : List D).foldl (fun (_ : Option C) d => some (fit b d)) none).map (expand b) := by
  simp [List.foldl_append]

/-! ### several `Symfc` objects sharing basis-set dictionaries (`Model/ApiMulti.lean`)

The `basis_set` setter keeps the dict it is given by reference and `compute_basis_set` writes into that dict, so
after `B.basis_set = A.basis_set` the two objects hold ONE dict. `MState` is a list of objects plus a heap of
dicts; `view s i` is the single-object `ApiState` that object `i` sees; `mstep` is the multi-object step
(`Lemmas/ApiMulti.lean`: `mstep_simulates_step`, `mstep_frame` relate it to the single-object `step`). -/

open ApiMulti in
/-- C12, several objects (M1): the outcome of `solve` on object `i` of ANY multi-object state — the error reported and
    everything the object holds afterwards — is the single-object outcome on what `i` holds (`view s i`); the other
    objects, their histories and who shares which dict do not enter. Hence every single-object statement above
    transfers; the second part spells this out for `solve_depends_only_on_inputs`: two objects (of the same or of
    different families) with the same inputs accept/reject alike and store identical values under every written key. -/
theorem solve_on_any_object_depends_only_on_what_it_holds
    (s : MState) (i : Nat) (v : ApiState) (hv : view s i = some v)
    (m : Option Nat) (o : Option (List Nat)) (c : Bool) :
    ((mstep genApiCfg s (.solve i m o c)).2 = liftErr (solveStep genApiCfg v m o c).2 ∧
     view (mstep genApiCfg s (.solve i m o c)).1 i = some (solveStep genApiCfg v m o c).1) ∧
    (∀ (t : MState) (j : Nat) (w : ApiState), view t j = some w → sameInputs v w →
      ∀ os, checkOrders genApiCfg m o = .ok os →
        (mstep genApiCfg s (.solve i m o c)).2 = (mstep genApiCfg t (.solve j m o c)).2 ∧
        ∃ v' w', view (mstep genApiCfg s (.solve i m o c)).1 i = some v' ∧
                 view (mstep genApiCfg t (.solve j m o c)).1 j = some w' ∧
                 (v' ≠ v → ∀ k ∈ os, dictGet v'.fc k = dictGet w'.fc k)) := by
  have h1 := solve_on_object_depends_only_on_its_view genApiCfg s i v hv m o c
  refine ⟨h1, ?_⟩
  intro t j w hw hin os ho
  have h2 := solve_on_object_depends_only_on_its_view genApiCfg t j w hw m o c
  have h3 := solve_depends_only_on_inputs v w hin m o c os ho
  refine ⟨?_, _, _, h1.2, h2.2, h3.2⟩
  rw [h1.1, h2.1, h3.1]

open ApiMulti in
/-- C12, several objects (M2): objects of ONE configuration (same supercell/operations token, same cutoff table) may hand
    their basis-set dicts to each other in any way. After any finite history from nothing in which objects are only
    created with the common configuration `(n, c, cut)` — any interleaving of dataset setters, hand-overs,
    `compute_basis_set`, `solve`, `run` on any objects —
    (a) every basis set stored under key `k` in what any object holds is the common one, `{k, c, cut k}`;
    (b) a `solve` that raises nothing on ANY object `i` stores under every requested order `k` exactly
        `{k, request, [common basis sets of the request], dataset of i, compact}`, and this is what a fresh object of
        that configuration with the same dataset returns for the same request after computing the requested basis
        sets itself (`freshSolve`), which also raises nothing. -/
theorem shared_basis_sets_are_harmless_between_consistent_objects
    (n c : Nat) (cut : List (Nat × Option Nat)) (ops : List MOp) (hops : ∀ op ∈ ops, Respects n c cut op)
    (i : Nat) (v : ApiState) (hv : view (runM genApiCfg .empty ops) i = some v) :
    (∀ k b, dictGet v.basis k = some b → b = { order := k, cfgId := c, cutoff := (dictGet cut k).getD none }) ∧
    ∀ (m : Option Nat) (o : Option (List Nat)) (compact : Bool) (os : List Nat),
      checkOrders genApiCfg m o = .ok os →
      (mstep genApiCfg (runM genApiCfg .empty ops) (.solve i m o compact)).2 = none →
      ∃ v' d f,
        view (mstep genApiCfg (runM genApiCfg .empty ops) (.solve i m o compact)).1 i = some v' ∧
        v.disp = some d ∧ v.forces = some f ∧
        (freshSolve genApiCfg n c cut v.disp v.forces m o compact).2 = none ∧
        ∀ k ∈ os,
          dictGet v'.fc k =
            some { order := k, orders := os,
                   bases := os.map (fun k => { order := k, cfgId := c, cutoff := (dictGet cut k).getD none }),
                   disp := d.id, forces := f.id, compact := compact } ∧
          dictGet v'.fc k = dictGet (freshSolve genApiCfg n c cut v.disp v.forces m o compact).1.fc k := by
  have hbf : ∀ k b, basisFor genApiCfg c cut k = some b →
      b = { order := k, cfgId := c, cutoff := (dictGet cut k).getD none } := by
    intro k b h
    unfold basisFor at h
    cases hck : dictGet genApiCfg.cutoffKeys k with
    | none => rw [hck] at h; cases h
    | some ck =>
      have hmem := dictGet_mem _ k ck hck
      have hall : genApiCfg.cutoffKeys.all (fun p => p.1 == p.2) = true := by decide
      have hkk : k = ck := by simpa using List.all_eq_true.mp hall _ hmem
      rw [hck] at h
      simp only [Option.map_some, Option.some.injEq] at h
      rw [← h, ← hkk]
  refine ⟨?_, ?_⟩
  · intro k b h
    exact hbf k b ((reachable_dicts_hold_the_common_basis genApiCfg n c cut ops hops).2 i v hv k b h)
  · intro m o compact os ho hok
    obtain ⟨v', bases, d, f, h1, h2, h3, h4, h5, h6⟩ :=
      sharing_is_harmless_for_consistent_objects genApiCfg (by decide) n c cut ops hops i v hv m o compact os ho hok
    have hbases : bases = os.map (fun k => { order := k, cfgId := c, cutoff := (dictGet cut k).getD none }) := by
      clear h6 ho
      induction os generalizing bases with
      | nil => simpa [allSome] using h4.symm
      | cons x xs ih =>
        simp only [List.map_cons] at h4 ⊢
        cases hx : basisFor genApiCfg c cut x with
        | none => rw [hx] at h4; simp [allSome] at h4
        | some bx =>
          rw [hx] at h4
          cases hr : allSome (xs.map (basisFor genApiCfg c cut)) with
          | none => simp [allSome, hr] at h4
          | some r =>
            simp only [allSome, hr, Option.map_some, Option.some.injEq] at h4
            rw [← h4, ih r hr, hbf x bx hx]
    exact ⟨v', d, f, h1, h2, h3, h5, fun k hk => by rw [← hbases]; exact h6 k hk⟩

open ApiMulti in
/-- C12, several objects (M3) — what sharing MEANS when the configurations differ (an observation, not a defect of a
    consistent use): A (cutoff token 5) computes order 2; B (same supercell, cutoff token 7) is handed A's dict and
    recomputes order 2. A and B hold the same dict, so A's next solve of order 2 — which raises nothing — was computed
    from the basis set with B's cutoff, while a fresh object with A's configuration and dataset, and A itself before
    B recomputed, use A's cutoff. With a copying setter (`ApiMulti.handover_of_a_copy_is_isolated`) A would be
    unaffected. -/
theorem sharing_with_another_cutoff_changes_the_giver :
    refOf (runM genApiCfg .empty m3History) 0 = refOf (runM genApiCfg .empty m3History) 1 ∧
    (mstep genApiCfg (runM genApiCfg .empty m3History) (.solve 0 none (some [2]) true)).2 = none ∧
    fc2After (runM genApiCfg .empty m3History) 0 =
      some (some { order := 2, orders := [2], bases := [{ order := 2, cfgId := 1, cutoff := some 7 }],
                   disp := 10, forces := 11, compact := true }) ∧
    dictGet (freshSolve genApiCfg 2 1 [(2, some 5)] (some ⟨10, [5, 2, 3]⟩) (some ⟨11, [5, 2, 3]⟩)
              none (some [2]) true).1.fc 2 =
      some { order := 2, orders := [2], bases := [{ order := 2, cfgId := 1, cutoff := some 5 }],
             disp := 10, forces := 11, compact := true } ∧
    fc2After (runM genApiCfg .empty m3Before) 0 =
      some (some { order := 2, orders := [2], bases := [{ order := 2, cfgId := 1, cutoff := some 5 }],
                   disp := 10, forces := 11, compact := true }) :=
  ApiMulti.sharing_with_another_cutoff_changes_the_giver

end Symfc.C12
