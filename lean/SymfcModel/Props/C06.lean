/-
  Props/C06.lean — least-squares optimality. PROPERTY THEOREMS ONLY.
-/
import SymfcModel.Model.Inst
namespace Symfc.C06
open Symfc

/-- C06.c: `solve_linear_equation` inspects LAPACK's `info` and raises when it is non-zero (after the fix of F3),
    so coefficients that do not solve the normal equations are never returned silently. -/
theorem posv_failure_is_loud : Gen.posvInfoChecked = true := by decide

end Symfc.C06
