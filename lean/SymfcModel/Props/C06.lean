/-
  Props/C06.lean — the fit is the least-squares minimiser over the admissible space.
  PROPERTY THEOREMS ONLY. Linear algebra over an arbitrary linearly ordered field `K` (exact arithmetic).
  `X` is the design matrix (rows = (snapshot, atom, component), columns = basis vectors), `y` the forces.
-/
import SymfcModel.Model.Inst
import SymfcModel.Lemmas.LinAlg
import Mathlib.Data.Matrix.ColumnRowPartitioned
import SymfcModel.Gen.ApiDataflow
namespace Symfc.C06
open Symfc Matrix

variable {K : Type*} [Field K] [LinearOrder K] [IsStrictOrderedRing K]
variable {r k m k₂ k₃ β : Type*} [Fintype r] [Fintype k] [Fintype m] [Fintype k₂] [Fintype k₃] [Fintype β]

/-- C06.b: any coefficient vector satisfying the normal equations minimises the sum of squared force residuals over
    ALL coefficient vectors (no uniqueness or rank assumption: under-determined data included). -/
theorem normal_equations_give_a_minimiser (X : Matrix r k K) (y : r → K) (c : k → K)
    (h : (Xᵀ * X) *ᵥ c = Xᵀ *ᵥ y) (c' : k → K) :
    (X *ᵥ c - y) ⬝ᵥ (X *ᵥ c - y) ≤ (X *ᵥ c' - y) ⬝ᵥ (X *ᵥ c' - y) :=
  LinAlg.normal_eq_minimises X y c h c'

/-- C06.b: the residual is orthogonal to the force pattern produced by every basis vector (every column of X) -/
theorem residual_orthogonal_to_every_basis_force_pattern (X : Matrix r k K) (y : r → K) (c : k → K)
    (h : (Xᵀ * X) *ᵥ c = Xᵀ *ᵥ y) : Xᵀ *ᵥ (X *ᵥ c - y) = 0 :=
  LinAlg.normal_eq_residual_orthogonal X y c h

/-- C06.a: `XᵀX` and `Xᵀy` accumulated over ANY partition of the rows into batches (atom batches × snapshot
    batches: `b` maps a row to its batch) equal those of the stacked design matrix. -/
theorem gram_accumulated_over_batches [DecidableEq β] (X : Matrix r k K) (y : r → K) (b : r → β) :
    Xᵀ * X = ∑ j : β, Matrix.of (fun i i' => ∑ s ∈ Finset.univ.filter (fun s => b s = j), X s i * X s i') ∧
    Xᵀ *ᵥ y = ∑ j : β, (fun i => ∑ s ∈ Finset.univ.filter (fun s => b s = j), X s i * y s) :=
  ⟨LinAlg.gram_sum_over_batches X b, LinAlg.rhs_sum_over_batches X y b⟩

omit [LinearOrder K] [IsStrictOrderedRing K] in
/-- C06.a: projecting the accumulated Gram matrix with the eigenvector matrix `E` afterwards
    (`compress_eigvecs.T @ mat @ compress_eigvecs`) is the Gram matrix of the projected design matrix `X̃ E`. -/
theorem projected_gram (Xt : Matrix r m K) (E : Matrix m k K) (y : r → K) :
    (Xt * E)ᵀ * (Xt * E) = Eᵀ * (Xtᵀ * Xt) * E ∧ (Xt * E)ᵀ *ᵥ y = Eᵀ *ᵥ (Xtᵀ *ᵥ y) := by
  constructor
  · rw [Matrix.transpose_mul]; simp only [Matrix.mul_assoc]
  · rw [Matrix.transpose_mul, ← Matrix.mulVec_mulVec]

omit [LinearOrder K] [IsStrictOrderedRing K] in
/-- C06.a: the block assembly `np.block([[m22, m23], [m23.T, m33]])`, `np.hstack([m2y, m3y])` is the Gram matrix /
    right-hand side of the joint design matrix `[X₂ | X₃]` (and likewise, nested, for three orders). -/
theorem block_assembly_is_joint_gram (X₂ : Matrix r k₂ K) (X₃ : Matrix r k₃ K) (y : r → K) :
    (Matrix.fromCols X₂ X₃)ᵀ * (Matrix.fromCols X₂ X₃) =
      Matrix.fromBlocks (X₂ᵀ * X₂) (X₂ᵀ * X₃) ((X₂ᵀ * X₃)ᵀ) (X₃ᵀ * X₃) ∧
    (Matrix.fromCols X₂ X₃)ᵀ *ᵥ y = Sum.elim (X₂ᵀ *ᵥ y) (X₃ᵀ *ᵥ y) := by
  constructor
  · rw [Matrix.transpose_fromCols, Matrix.fromRows_mul_fromCols, Matrix.transpose_mul, Matrix.transpose_transpose]
  · rw [Matrix.transpose_fromCols, Matrix.fromRows_mulVec]

/-- outcome of `solve_linear_equation` given LAPACK's contract for `posv`
    (`info = 0` ⇒ the returned `x` solves `A x = b`; `info ≠ 0` ⇒ the returned array is `b`, untouched) -/
inductive Outcome (V : Type) | raised | returned (v : V)

def solveLinearEquation {V : Type} (infoChecked : Bool) (info : Int) (x b : V) : Outcome V :=
  if info ≠ 0 then (if infoChecked then .raised else .returned b) else .returned x

/-- C06.c: with the extracted behaviour (`info` is checked — fix of F3) whatever is returned is LAPACK's solution:
    the solver returns a solution of the normal equations or fails loudly. -/
theorem returns_a_solution_or_raises {V : Type} (info : Int) (x b v : V)
    (h : solveLinearEquation Gen.posvInfoChecked info x b = .returned v) : info = 0 ∧ v = x := by
  have hc : Gen.posvInfoChecked = true := by decide
  rw [hc] at h
  unfold solveLinearEquation at h
  by_cases hi : info = 0
  · simp [hi] at h; exact ⟨hi, h.symm⟩
  · simp [hi] at h

/-- …and the negation for the code as it was before the fix: `A = [[1,1],[1,1]]`, `b = [1,1]` (posv: info = 2)
    returned `b` itself. -/
theorem unchecked_info_returns_the_rhs :
    solveLinearEquation false 2 (none : Option (List Int)) (some [1, 1]) = .returned (some [1, 1]) := by
  rfl

/-- the API hands the dataset it stores — unchanged, whole, in the stored order — to every solver, and a dispatch branch
    of `Symfc.solve` does nothing but look the basis sets up, call the solver, select the layout and store the result
    (facts regenerated from api_symfc.py): the theorems of this file about the fit therefore speak about what a user
    gets from `Symfc.run` / `Symfc.solve` for the arrays supplied -/
theorem api_hands_the_stored_dataset_unchanged_to_every_solver :
    Gen.solveTopLevel = ["self._check_dataset()", "orders = self._check_orders(max_order, orders)", "<dispatch>",
                         "return self"]
    ∧ Gen.solverDatasetArgs = List.replicate 6 ["self._displacements", "self._forces"]
    ∧ Gen.solverBasisArgs = ["2", "3", "4", "[2,3]", "[3,4]", "[2,3,4]"]
    ∧ Gen.solveBranchKinds = [["basis", "solve", "select"], ["basis", "solve", "select"], ["basis", "solve", "select"],
                              ["basis", "basis", "solve", "select", "store", "store"],
                              ["basis", "basis", "solve", "select", "store", "store"],
                              ["basis", "basis", "basis", "solve", "select", "store", "store", "store"]] := by
  decide

end Symfc.C06
