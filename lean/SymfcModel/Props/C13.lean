/-
  Props/C13.lean — the fit is linear in the forces and depends on the dataset as a multiset.
  PROPERTY THEOREMS ONLY. `X` = design matrix (a function of the displacements only), `y` = forces,
  "fit" = a solution of the normal equations `XᵀX c = Xᵀy`; "well-conditioned" = `X.mulVec` injective.
-/
import SymfcModel.Model.Inst
import SymfcModel.Lemmas.LinAlg
import SymfcModel.Lemmas.HomogeneousMat
import SymfcModel.Gen.ApiDataflow
namespace Symfc.C13
open Symfc Matrix

variable {K : Type*} [Field K] [LinearOrder K] [IsStrictOrderedRing K]
variable {r k : Type*} [Fintype r] [Fintype k]

/-- the six solvers fit exactly the documented order combinations, each order with one constant (the design matrix
    is a function of the displacements only; forces enter the right-hand side linearly) -/
theorem solver_combinations :
    Gen.solverConst6.map (fun p => (p.1, p.2.map (·.1))) =
      [("O2", [2]), ("O3", [3]), ("O4", [4]), ("O2O3", [2, 3]), ("O3O4", [3, 4]), ("O2O3O4", [2, 3, 4])] := by
  decide

/-- the fit is unique when the snapshots determine the coefficients -/
theorem fit_unique (X : Matrix r k K) (hinj : Function.Injective X.mulVec) (c c' : k → K)
    (h : (Xᵀ * X) *ᵥ c = (Xᵀ * X) *ᵥ c') : c = c' :=
  LinAlg.normal_eq_unique X hinj c c' h

omit [LinearOrder K] [IsStrictOrderedRing K] in
/-- fit(a f₁ + b f₂) = a fit(f₁) + b fit(f₂) -/
theorem fit_linear_in_forces (X : Matrix r k K) (y1 y2 : r → K) (c1 c2 : k → K) (a b : K)
    (h1 : (Xᵀ * X) *ᵥ c1 = Xᵀ *ᵥ y1) (h2 : (Xᵀ * X) *ᵥ c2 = Xᵀ *ᵥ y2) :
    (Xᵀ * X) *ᵥ (a • c1 + b • c2) = Xᵀ *ᵥ (a • y1 + b • y2) :=
  LinAlg.normal_eq_linear X y1 y2 c1 c2 a b h1 h2

/-- identically zero forces give zero coefficients, hence zero force constants -/
theorem zero_forces_give_zero (X : Matrix r k K) (hinj : Function.Injective X.mulVec) (c : k → K)
    (h : (Xᵀ * X) *ᵥ c = Xᵀ *ᵥ (0 : r → K)) : c = 0 :=
  LinAlg.normal_eq_zero X hinj c h

omit [LinearOrder K] [IsStrictOrderedRing K] in
/-- reordering the snapshots (any permutation σ of the rows, so also across batches) changes neither `XᵀX` nor `Xᵀy` -/
theorem snapshot_order_irrelevant (X : Matrix r k K) (y : r → K) (σ : r ≃ r) :
    (X.submatrix σ id)ᵀ * (X.submatrix σ id) = Xᵀ * X ∧ (X.submatrix σ id)ᵀ *ᵥ (y ∘ σ) = Xᵀ *ᵥ y :=
  ⟨LinAlg.gram_submatrix_equiv X σ, LinAlg.rhs_submatrix_equiv X y σ⟩

/-- duplicating the whole dataset leaves the set of fits unchanged -/
theorem duplication_irrelevant (X : Matrix r k K) (y : r → K) (c : k → K) :
    ((Matrix.of (fun (s : r ⊕ r) i => X (s.elim id id) i))ᵀ * (Matrix.of (fun (s : r ⊕ r) i => X (s.elim id id) i))) *ᵥ c
        = (Matrix.of (fun (s : r ⊕ r) i => X (s.elim id id) i))ᵀ *ᵥ (fun s => y (s.elim id id))
      ↔ (Xᵀ * X) *ᵥ c = Xᵀ *ᵥ y :=
  LinAlg.normal_eq_duplicate_iff X y c

/-- for a single fitted order n the design matrix is homogeneous of degree n−1 in the displacements: scaling
    displacements by s and forces by s^(n−1) scales (X, y) to (t•X, t•y) with t = s^(n−1) ≠ 0, which leaves the fits
    unchanged -/
theorem scaling_irrelevant (X : Matrix r k K) (y : r → K) (s : K) (n : Nat) (hs : s ≠ 0) (c : k → K) :
    (((s ^ (n - 1)) • X)ᵀ * ((s ^ (n - 1)) • X)) *ᵥ c = ((s ^ (n - 1)) • X)ᵀ *ᵥ ((s ^ (n - 1)) • y)
      ↔ (Xᵀ * X) *ᵥ c = Xᵀ *ᵥ y :=
  LinAlg.normal_eq_smul_iff X y (s ^ (n - 1)) (pow_ne_zero _ hs) c

/-- scaling every displacement by s scales the order-n design block by s^(n−1): (s u, s^(n−1) f) and (u, f) give
    proportional normal equations — the scaling clause of C13; a back-transform with the wrong exponent (s^n) breaks
    exactly this. Model level (`Model/Solver.lean`): for every cell, every order data `od` (n = `od.k`), every snapshot
    `u`, every integer `s` and every entry (atom i, component a, column x) of the Taylor design block. This is the
    hypothesis under which `scaling_irrelevant` applies to the code's design matrix (which is this Taylor block by
    `C05.design_matrix_is_the_taylor_expansion`). -/
theorem design_matrix_is_homogeneous_in_the_displacements (c : Cell) (od : OrderData) (u : Array Int) (s : Int)
    (i a x : Nat) :
    designEntrySpec c od (u.map (s * ·)) i a x = s ^ (od.k - 1) * designEntrySpec c od u i a x :=
  Homogeneous.designEntrySpec_scale c od u s i a x

/-- the scaling clause end to end for a single fitted order n = `od.k`: with the design block of the model as the
    matrix `X(u)` (entries `designEntrySpec`, cast to K), the dataset (s u, s^(n−1) f) has exactly the fits of (u, f)
    — `design_matrix_is_homogeneous_in_the_displacements` gives `X(s u) = s^(n−1) • X(u)`, then `scaling_irrelevant` -/
theorem scaled_dataset_gives_the_same_fits (c : Cell) (od : OrderData) (u : Array Int) (s : Int) (hs : (s : K) ≠ 0)
    (y : Fin c.N × Fin 3 → K) (cf : Fin od.nx → K) :
    ((Homogeneous.designMatrix K c od (u.map (s * ·)))ᵀ * Homogeneous.designMatrix K c od (u.map (s * ·))) *ᵥ cf
        = (Homogeneous.designMatrix K c od (u.map (s * ·)))ᵀ *ᵥ (((s : K) ^ (od.k - 1)) • y)
      ↔ ((Homogeneous.designMatrix K c od u)ᵀ * Homogeneous.designMatrix K c od u) *ᵥ cf
        = (Homogeneous.designMatrix K c od u)ᵀ *ᵥ y := by
  rw [Homogeneous.designMatrix_scale]
  exact scaling_irrelevant _ y (s : K) od.k hs cf

/-- the API hands the dataset it stores — unchanged, whole, in the stored order — to every solver, and a dispatch branch
    of `Symfc.solve` does nothing but look the basis sets up, call the solver, select the layout and store the result
    (facts regenerated from api_symfc.py): the theorems of this file about the fit therefore speak about what a user
    gets from `Symfc.run` / `Symfc.solve` for the arrays supplied -/
theorem api_hands_the_stored_dataset_unchanged_to_every_solver :
    Gen.solveTopLevel = ["self._check_dataset()", "orders = self._check_orders(max_order, orders)", "<dispatch>",
                         "return self"]
    ∧ Gen.solverDatasetArgs = List.replicate 6 ["self._displacements", "self._forces"]
    ∧ Gen.solverBasisArgs = ["2", "3", "4", "[2,3]", "[3,4]", "[2,3,4]"]
    ∧ Gen.solveBranchKinds = [["basis", "solve", "select"], ["basis", "solve", "select"], ["basis", "solve", "select"],
                              ["basis", "basis", "solve", "select", "store", "store"],
                              ["basis", "basis", "solve", "select", "store", "store"],
                              ["basis", "basis", "basis", "solve", "select", "store", "store", "store"]] := by
  decide

end Symfc.C13
