/-
  Props/C13.lean — fit is linear in the forces and depends on the dataset as a multiset.
  PROPERTY THEOREMS ONLY.
-/
import SymfcModel.Model.Inst
namespace Symfc.C13
open Symfc

/-- the six solvers fit exactly the documented order combinations, each order with one constant (the design matrix
    is a function of the displacements only; forces enter the right-hand side linearly) -/
theorem solver_combinations :
    Gen.solverConst6.map (fun p => (p.1, p.2.map (·.1))) =
      [("O2", [2]), ("O3", [3]), ("O4", [4]), ("O2O3", [2, 3]), ("O3O4", [3, 4]), ("O2O3O4", [2, 3, 4])] := by
  decide

end Symfc.C13
