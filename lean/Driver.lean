/-
  Driver.lean — line protocol: one JSON request per line on stdin, one JSON reply per line.
  Run with `lake env lean --run Driver.lean`.
  Every model function that a theorem cites is reachable here so that the correspondence
  harness can compare it with the real symfc function on the same input.
-/
import Lean.Data.Json
import SymfcModel.Model.Basic
import SymfcModel.Model.Cell
import SymfcModel.Model.Cutoff
import SymfcModel.Model.Perm
import SymfcModel.Gen.PermTables
import SymfcModel.Gen.Cutoff
open Lean Symfc

def jNat (j : Json) (k : String) : Except String Nat := do
  let v ← j.getObjVal? k
  v.getNat?

def jNatList (j : Json) : Except String (List Nat) := do
  let a ← j.getArr?
  a.toList.mapM (fun x => x.getNat?)

def jNatMat (j : Json) : Except String (Array (Array Nat)) := do
  let a ← j.getArr?
  a.mapM (fun r => do let l ← jNatList r; pure l.toArray)

def jCell (j : Json) : Except String Cell := do
  let N ← jNat j "N"
  let tp ← jNatMat (← j.getObjVal? "tp")
  pure { N := N, tp := tp }

def jCut (j : Json) : Except String (Option CutoffIn) := do
  match j.getObjVal? "cut" with
  | .error _ => pure none
  | .ok .null => pure none
  | .ok cj =>
    let N ← jNat j "N"
    let dist ← jNatMat (← cj.getObjVal? "dist")
    let cutoff ← jNat cj "cutoff"
    pure (some { N := N, dist := dist, cutoff := cutoff })

def natsJ (l : List Nat) : Json := Json.arr (l.map (fun (n : Nat) => Json.num (JsonNumber.fromNat n))).toArray
def intsJ (l : List Int) : Json := Json.arr (l.map (fun n => Json.num (JsonNumber.fromInt n))).toArray
def natMatJ (l : List (List Nat)) : Json := Json.arr (l.map natsJ).toArray

def stagesFor (n : Nat) : List Stage :=
  if n == 2 then Gen.stagesO2 else if n == 3 then Gen.stagesO3 else Gen.stagesO4
def repFor (n : Nat) : RepKind :=
  if n == 2 then Gen.repKindO2 else if n == 3 then Gen.repKindO3 else Gen.repKindO4

def handle (j : Json) : Except String Json := do
  let op ← (← j.getObjVal? "op").getStr?
  match op with
  | "batch_slice" =>
    let n ← jNat j "n"; let b ← jNat j "b"
    match batchSlice n b with
    | none => pure (Json.str "ValueError")
    | some sl => pure (Json.arr (sl.map (fun (x, y) => natsJ [x, y])).toArray)
  | "cell_wf" => let c ← jCell j; pure (Json.bool c.wf)
  | "indep" => let c ← jCell j; pure (natsJ c.indepAtoms)
  | "atomic_decompr" =>
    let c ← jCell j; let n ← jNat j "n"
    pure (natsJ (c.atomicDecompr n).toList)
  | "class_idx_all" =>
    let c ← jCell j; let n ← jNat j "n"
    pure (Json.arr ((tuples c.N n).map (fun t => match c.classIdx t with
      | some v => Json.num (JsonNumber.fromNat v) | none => Json.null)).toArray)
  | "lat_trans_decompr" =>
    let c ← jCell j; let n ← jNat j "n"
    pure (natsJ (c.latTransDecompr n).toList)
  | "entire_combinations" =>
    let n ← jNat j "n"; let r ← jNat j "r"
    pure (natMatJ (entireCombinations n r))
  | "combinations" =>
    let N ← jNat j "N"; let order ← jNat j "order"
    let cut ← jCut j
    let indep ← match j.getObjVal? "indep" with
      | .ok .null => pure none
      | .ok v => do let l ← jNatList v; pure (some l)
      | .error _ => pure none
    pure (natMatJ (getCombinations Gen.cutoffOps N order cut indep))
  | "neighbors" =>
    let cut ← jCut j
    match cut with
    | none => throw "cut required"
    | some x => pure (natMatJ ((List.range x.N).map (x.neighbors Gen.cutoffOps)))
  | "nonzero_atomic" =>
    let n ← jNat j "n"
    let cut ← jCut j
    match cut with
    | none => throw "cut required"
    | some x => pure (natsJ ((x.nonzeroAtomic Gen.cutoffOps n).toList.map (fun b => if b then 1 else 0)))
  | "perm_decompr" =>
    let c ← jCell j; let n ← jNat j "n"
    let cut ← jCut j
    let nb ← j.getObjVal? "nbatch"
    let nbf : String → Nat := fun k =>
      if k == "1" then 1 else
      match nb.getObjVal? k with
      | .ok v => (v.getNat?.toOption).getD 1
      | .error _ => 1
    match permDecompr Gen.cutoffOps c n (repFor n) (stagesFor n) cut nbf with
    | none => pure (Json.str "ValueError")
    | some ptr =>
      let lab := componentLabels ptr
      pure (Json.mkObj [("ptr", intsJ ptr.toList), ("labels", intsJ lab.toList)])
  | _ => throw s!"unknown op {op}"

partial def loop (h : IO.FS.Stream) (out : IO.FS.Stream) : IO Unit := do
  let line ← h.getLine
  if line.isEmpty then return ()
  let reply := match Json.parse line with
    | .error e => Json.mkObj [("error", Json.str s!"parse: {e}")]
    | .ok j => match handle j with
      | .ok r => Json.mkObj [("ok", r)]
      | .error e => Json.mkObj [("error", Json.str e)]
  out.putStrLn reply.compress
  out.flush
  loop h out

def main : IO Unit := do
  loop (← IO.getStdin) (← IO.getStdout)
