/-
  Driver.lean — line protocol: one JSON request per line on stdin, one JSON reply per line.
  Run with `lake env lean --run Driver.lean`.
  Every model function that a theorem cites is reachable here so that the correspondence
  harness can compare it with the real symfc function on the same input.
-/
import Lean.Data.Json
import SymfcModel.Model.Basic
import SymfcModel.Model.Cell
import SymfcModel.Model.Cutoff
import SymfcModel.Model.Perm
import SymfcModel.Model.SumRule
import SymfcModel.Model.Coset
import SymfcModel.Model.Solver
import SymfcModel.Model.Api
import SymfcModel.Model.ApiMulti
import SymfcModel.Model.Eig
import SymfcModel.Model.SgPerm
import SymfcModel.Model.SgPermFull
import SymfcModel.Model.Dist
import SymfcModel.Model.Relabel
import SymfcModel.Gen.PermTables
import SymfcModel.Gen.Cutoff
import SymfcModel.Gen.Solver
import SymfcModel.Gen.Api
import SymfcModel.Gen.Eig
import SymfcModel.Gen.SumRule
open Lean Symfc

def jNat (j : Json) (k : String) : Except String Nat := do
  let v ← j.getObjVal? k
  v.getNat?

def jNatList (j : Json) : Except String (List Nat) := do
  let a ← j.getArr?
  a.toList.mapM (fun x => x.getNat?)

def jNatMat (j : Json) : Except String (Array (Array Nat)) := do
  let a ← j.getArr?
  a.mapM (fun r => do let l ← jNatList r; pure l.toArray)

def jCell (j : Json) : Except String Cell := do
  let N ← jNat j "N"
  let tp ← jNatMat (← j.getObjVal? "tp")
  pure { N := N, tp := tp }

def jCut (j : Json) : Except String (Option CutoffIn) := do
  match j.getObjVal? "cut" with
  | .error _ => pure none
  | .ok .null => pure none
  | .ok cj =>
    let N ← jNat j "N"
    let dist ← jNatMat (← cj.getObjVal? "dist")
    let cutoff ← jNat cj "cutoff"
    pure (some { N := N, dist := dist, cutoff := cutoff })

def natsJ (l : List Nat) : Json := Json.arr (l.map (fun (n : Nat) => Json.num (JsonNumber.fromNat n))).toArray
def intsJ (l : List Int) : Json := Json.arr (l.map (fun n => Json.num (JsonNumber.fromInt n))).toArray
def natMatJ (l : List (List Nat)) : Json := Json.arr (l.map natsJ).toArray


def jInt (j : Json) (k : String) : Except String Int := do
  let v ← j.getObjVal? k
  v.getInt?

def jIntList (j : Json) : Except String (List Int) := do
  let a ← j.getArr?
  a.toList.mapM (fun x => x.getInt?)

def jIntMat (j : Json) : Except String IMat := do
  let a ← j.getArr?
  a.mapM (fun r => do let l ← jIntList r; pure l.toArray)

def jBool (j : Json) (k : String) : Except String Bool := do
  let v ← j.getObjVal? k
  v.getBool?

def jOptNat (j : Json) (k : String) : Except String (Option Nat) :=
  match j.getObjVal? k with
  | .ok .null => pure none
  | .ok v => do let n ← v.getNat?; pure (some n)
  | .error _ => pure none

def jOptNatList (j : Json) (k : String) : Except String (Option (List Nat)) :=
  match j.getObjVal? k with
  | .ok .null => pure none
  | .ok v => do let n ← jNatList v; pure (some n)
  | .error _ => pure none

def pairsJ (l : List (Nat × Nat)) : Json := Json.arr (l.map (fun (a, b) => natsJ [a, b])).toArray
def imatJ (m : IMat) : Json := Json.arr (m.map (fun r => intsJ r.toList))

def nzCutOf (j : Json) (n : Nat) : Except String (Option (Array Bool)) := do
  let cut ← jCut j
  pure (cut.map (fun x => x.nonzeroAtomic Gen.cutoffOps n))

def sumCfg (n : Nat) (fast : Bool) : SumRuleCfg :=
  match n, fast with
  | 2, true => Gen.sumRuleCfgO2_fast | 2, false => Gen.sumRuleCfgO2_stable
  | 3, true => Gen.sumRuleCfgO3_fast | 3, false => Gen.sumRuleCfgO3_stable
  | _, true => Gen.sumRuleCfgO4_fast | _, false => Gen.sumRuleCfgO4_stable

def chainFor (k : Nat) : Chain := if k == 2 then Gen.chainO2 else if k == 3 then Gen.chainO3 else Gen.chainO4

def jSRows (j : Json) : Except String SRows := do
  let a ← j.getArr?
  a.mapM (fun r => do
    let ents ← r.getArr?
    ents.toList.mapM (fun e => do
      let p ← e.getArr?
      let c ← (p.getD 0 Json.null).getNat?
      let v ← (p.getD 1 Json.null).getInt?
      pure (c, v)))

def jOrderData (solver : String) (j : Json) : Except String OrderData := do
  let k ← jNat j "k"
  let nx ← jNat j "nx"
  let cc ← jSRows (← j.getObjVal? "cc")
  let consts := ((Gen.solverConst6.find? (fun p => p.1 == solver)).map (·.2)).getD []
  let c6 := ((consts.find? (fun p => p.1 == k)).map (·.2)).getD 0
  pure { k := k, nx := nx, cc := cc, const6 := c6, chain := chainFor k }

def apiCfg : ApiCfg :=
  { maxOrderWhitelist := Gen.maxOrderWhitelist, ordersWhitelist := Gen.ordersWhitelist,
    guards := Gen.datasetGuards, checksFirst := Gen.solveChecksFirst, branches := Gen.solveBranches,
    runGuarded := Gen.runGuarded, cutoffKeys := Gen.computeCutoffKeys }

def jArr (j : Json) : Except String Arr := do
  let id ← jNat j "id"
  let shape ← jNatList (← j.getObjVal? "shape")
  pure { id := id, shape := shape }

def jOptArr (j : Json) (k : String) : Except String (Option Arr) :=
  match j.getObjVal? k with
  | .ok .null => pure none
  | .ok v => do let a ← jArr v; pure (some a)
  | .error _ => pure none

def jBasisDict (j : Json) : Except String (List (Nat × Basis)) := do
  let a ← j.getArr?
  a.toList.mapM (fun e => do
    let k ← jNat e "key"
    let order ← jNat e "order"
    let cfgId ← jNat e "cfgId"
    let cutoff ← jOptNat e "cutoff"
    pure (k, { order := order, cfgId := cfgId, cutoff := cutoff }))

def jApiOp (j : Json) : Except String ApiOp := do
  let t ← (← j.getObjVal? "t").getStr?
  match t with
  | "setDisp" => do let a ← jArr j; pure (.setDisp a)
  | "setForces" => do let a ← jArr j; pure (.setForces a)
  | "setBasis" => do let d ← jBasisDict (← j.getObjVal? "dict"); pure (.setBasis d)
  | "computeBasis" => do
    pure (.computeBasis (← jOptNat j "max_order") (← jOptNatList j "orders"))
  | "solve" => do
    pure (.solve (← jOptNat j "max_order") (← jOptNatList j "orders") (← jBool j "compact"))
  | "run" => do
    pure (.run (← jOptNat j "max_order") (← jOptNatList j "orders") (← jBool j "compact"))
  | _ => throw s!"unknown api op {t}"

def errJ : Option ApiErr → Json
  | none => Json.str "ok"
  | some e => Json.str (match e with
    | .noOrders => "noOrders" | .badMaxOrder => "badMaxOrder" | .badOrders => "badOrders"
    | .dispNone => "dispNone" | .forcesNone => "forcesNone" | .shapeMismatch => "shapeMismatch"
    | .dispShape => "dispShape" | .forcesShape => "forcesShape" | .missingBasis => "missingBasis"
    | .noBranch => "noBranch")

def optNatJ : Option Nat → Json
  | none => Json.null
  | some n => Json.num (JsonNumber.fromNat n)

def basisJ (b : Basis) : Json :=
  Json.mkObj [("order", Json.num (JsonNumber.fromNat b.order)), ("cfgId", Json.num (JsonNumber.fromNat b.cfgId)),
              ("cutoff", optNatJ b.cutoff)]

def fcValJ (v : FcVal) : Json :=
  Json.mkObj [("order", Json.num (JsonNumber.fromNat v.order)), ("orders", natsJ v.orders),
              ("bases", Json.arr (v.bases.map basisJ).toArray),
              ("disp", Json.num (JsonNumber.fromNat v.disp)), ("forces", Json.num (JsonNumber.fromNat v.forces)),
              ("compact", Json.bool v.compact)]

def stateJ (s : ApiState) : Json :=
  Json.mkObj [
    ("fc", Json.arr (s.fc.map (fun (k, v) => Json.mkObj [("key", Json.num (JsonNumber.fromNat k)), ("val", fcValJ v)])).toArray),
    ("basis", Json.arr (s.basis.map (fun (k, b) => Json.mkObj [("key", Json.num (JsonNumber.fromNat k)), ("val", basisJ b)])).toArray)]

/-- multi-object API (`Model/ApiMulti.lean`): one operation of the `"api_multi"` request -/
def jMOp (j : Json) : Except String MOp := do
  let t ← (← j.getObjVal? "t").getStr?
  match t with
  | "new" => do
    let natom ← jNat j "natom"
    let cfgId ← jNat j "cfgId"
    let cutj ← (← j.getObjVal? "cutoff").getArr?
    let cutoff ← cutj.toList.mapM (fun e => do
      let k ← jNat e "key"; let v ← jOptNat e "val"; pure (k, v))
    pure (.new natom cfgId cutoff)
  | "setDisp" => do let a ← jArr j; pure (.setDisp (← jNat j "obj") a)
  | "setForces" => do let a ← jArr j; pure (.setForces (← jNat j "obj") a)
  | "handOver" => do pure (.handOver (← jNat j "dst") (← jNat j "src"))
  | "computeBasis" => do
    pure (.computeBasis (← jNat j "obj") (← jOptNat j "max_order") (← jOptNatList j "orders"))
  | "solve" => do
    pure (.solve (← jNat j "obj") (← jOptNat j "max_order") (← jOptNatList j "orders") (← jBool j "compact"))
  | "run" => do
    pure (.run (← jNat j "obj") (← jOptNat j "max_order") (← jOptNatList j "orders") (← jBool j "compact"))
  | _ => throw s!"unknown api_multi op {t}"

def mErrJ : Option MErr → Json
  | none => Json.str "ok"
  | some .noObject => Json.str "noObject"
  | some (.api e) => errJ (some e)

def fcDictJ (fc : List (Nat × FcVal)) : Json :=
  Json.arr (fc.map (fun (k, v) => Json.mkObj [("key", Json.num (JsonNumber.fromNat k)), ("val", fcValJ v)])).toArray

/-- the object whose `force_constants` a step reports (`solve` / `run`) -/
def mOpSolvedObj : MOp → Option Nat
  | .solve i _ _ _ => some i
  | .run i _ _ _ => some i
  | _ => none

def mStepJ (s' : MState) (op : MOp) (e : Option MErr) : Json :=
  match mOpSolvedObj op with
  | none => Json.mkObj [("result", mErrJ e)]
  | some i =>
    match s'.objs[i]? with
    | none => Json.mkObj [("result", mErrJ e)]
    | some o => Json.mkObj [("result", mErrJ e), ("fc", fcDictJ o.fc)]

/-- the basis dict every object sees, as a list of `[order, cfgId, cutoff]` -/
def mBasisJ (s : MState) : Json :=
  Json.arr (s.objs.map (fun o =>
    Json.arr ((heapGet s o.dictRef).map (fun (_, b) =>
      Json.arr #[Json.num (JsonNumber.fromNat b.order), Json.num (JsonNumber.fromNat b.cfgId), optNatJ b.cutoff])).toArray)).toArray


def stagesFor (n : Nat) : List Stage :=
  if n == 2 then Gen.stagesO2 else if n == 3 then Gen.stagesO3 else Gen.stagesO4
def repFor (n : Nat) : RepKind :=
  if n == 2 then Gen.repKindO2 else if n == 3 then Gen.repKindO3 else Gen.repKindO4

def handle (j : Json) : Except String Json := do
  let op ← (← j.getObjVal? "op").getStr?
  match op with
  | "batch_slice" =>
    let n ← jNat j "n"; let b ← jNat j "b"
    match batchSlice n b with
    | none => pure (Json.str "ValueError")
    | some sl => pure (Json.arr (sl.map (fun (x, y) => natsJ [x, y])).toArray)
  | "cell_wf" => let c ← jCell j; pure (Json.bool c.wf)
  | "indep" => let c ← jCell j; pure (natsJ c.indepAtoms)
  | "atomic_decompr" =>
    let c ← jCell j; let n ← jNat j "n"
    pure (natsJ (c.atomicDecompr n).toList)
  | "class_idx_all" =>
    let c ← jCell j; let n ← jNat j "n"
    pure (Json.arr ((tuples c.N n).map (fun t => match c.classIdx t with
      | some v => Json.num (JsonNumber.fromNat v) | none => Json.null)).toArray)
  | "relabel" =>
    -- C10: the relabelled description (translation table, distance-rank matrix, tuples) of Model/Relabel.lean
    let c ← jCell j
    let pi ← jNatList (← j.getObjVal? "pi"); let piinv ← jNatList (← j.getObjVal? "piinv")
    let cut ← jCut j
    let tuples ← jNatMat (← j.getObjVal? "tuples")
    let c' := c.relabel pi.toArray piinv.toArray
    let cutJ := match cut with
      | none => Json.null
      | some x => natMatJ (((x.relabel pi.toArray piinv.toArray).dist).toList.map (·.toList))
    pure (Json.mkObj [("ok", Json.bool (isRelabelling c.N pi.toArray piinv.toArray)),
      ("tp", natMatJ (c'.tp.toList.map (·.toList))), ("dist", cutJ),
      ("tuples", natMatJ (tuples.toList.map (fun t => relabelTuple pi.toArray t.toList)))])
  | "lat_trans_decompr" =>
    let c ← jCell j; let n ← jNat j "n"
    pure (natsJ (c.latTransDecompr n).toList)
  | "entire_combinations" =>
    let n ← jNat j "n"; let r ← jNat j "r"
    pure (natMatJ (entireCombinations n r))
  | "combinations" =>
    let N ← jNat j "N"; let order ← jNat j "order"
    let cut ← jCut j
    let indep ← match j.getObjVal? "indep" with
      | .ok .null => pure none
      | .ok v => do let l ← jNatList v; pure (some l)
      | .error _ => pure none
    pure (natMatJ (getCombinations Gen.cutoffOps N order cut indep))
  | "neighbors" =>
    let cut ← jCut j
    match cut with
    | none => throw "cut required"
    | some x => pure (natMatJ ((List.range x.N).map (x.neighbors Gen.cutoffOps)))
  | "nonzero_atomic" =>
    let n ← jNat j "n"
    let cut ← jCut j
    match cut with
    | none => throw "cut required"
    | some x => pure (natsJ ((x.nonzeroAtomic Gen.cutoffOps n).toList.map (fun b => if b then 1 else 0)))
  | "perm_decompr" =>
    let c ← jCell j; let n ← jNat j "n"
    let cut ← jCut j
    let nb ← j.getObjVal? "nbatch"
    let nbf : String → Nat := fun k =>
      if k == "1" then 1 else
      match nb.getObjVal? k with
      | .ok v => (v.getNat?.toOption).getD 1
      | .error _ => 1
    match permDecompr Gen.cutoffOps c n (repFor n) (stagesFor n) cut nbf with
    | none => pure (Json.str "ValueError")
    | some ptr =>
      let lab := componentLabels ptr
      pure (Json.mkObj [("ptr", intsJ ptr.toList), ("labels", intsJ lab.toList)])
  | "sum_rule" =>
    let c ← jCell j; let n ← jNat j "n"
    let fast ← jBool j "fast"
    let bs ← jNat j "batch_size"
    let nz ← nzCutOf j n
    let cfg := sumCfg n fast
    match sumRuleBatches c n nz cfg bs with
    | none => pure (Json.str "ValueError")
    | some bl =>
      pure (Json.mkObj [
        ("divisor", Json.num (JsonNumber.fromNat (cfg.divisor.eval c.N c.nlp))),
        ("batches", Json.arr (bl.map (fun b => match b with
          | none => Json.null
          | some es => pairsJ es)).toArray)])
  | "sigma_rep" =>
    let N ← jNat j "N"; let n ← jNat j "n"
    let g ← jNatList (← j.getObjVal? "perm")
    let mask ← match j.getObjVal? "mask" with
      | .ok .null => pure none
      | .ok v => do let l ← jNatList v; pure (some (l.map (· != 0)).toArray)
      | .error _ => pure none
    pure (natsJ (sigmaRep N n g.toArray mask))
  | "coset_pairs" =>
    let c ← jCell j; let n ← jNat j "n"
    let g ← jNatList (← j.getObjVal? "perm")
    let fast ← jBool j "fast"
    let nz ← nzCutOf j n
    pure (pairsJ (cosetPairs c n g.toArray fast nz))
  | "chain_run" =>
    let k ← jNat j "k"; let N ← jNat j "N"; let nx ← jNat j "nx"
    let ents ← (← j.getObjVal? "entries").getArr?
    let out ← ents.toList.mapM (fun e => do
      let p ← jNatList e
      let (r, c) := (chainFor k).run N nx (p.getD 0 0) (p.getD 1 0)
      pure (natsJ [r, c]))
    pure (Json.arr out.toArray)
  | "normal_eq" =>
    let c ← jCell j
    let solver ← (← j.getObjVal? "solver").getStr?
    let odj ← (← j.getObjVal? "orders").getArr?
    let ods ← odj.toList.mapM (jOrderData solver)
    let us ← (← (← j.getObjVal? "disps").getArr?).toList.mapM (fun r => do let l ← jIntList r; pure l.toArray)
    let fs ← (← (← j.getObjVal? "forces").getArr?).toList.mapM (fun r => do let l ← jIntList r; pure l.toArray)
    let ab ← jNat j "atom_batch"; let sb ← jNat j "snap_batch"
    let spec := normalEqSpec c ods us fs
    match normalEqOp c ods us fs ab sb with
    | none => pure (Json.str "ValueError")
    | some (g, xy) =>
      pure (Json.mkObj [("XTX36", imatJ g), ("XTy6", intsJ xy.toList),
                        ("specXTX36", imatJ spec.1), ("specXTy6", intsJ spec.2.toList)])
  | "api" =>
    let natom ← jNat j "natom"
    let cfgId ← jNat j "cfgId"
    let cutj ← (← j.getObjVal? "cutoff").getArr?
    let cutoff ← cutj.toList.mapM (fun e => do
      let k ← jNat e "key"; let v ← jOptNat e "val"; pure (k, v))
    let disp ← jOptArr j "disp"
    let forces ← jOptArr j "forces"
    let opsj ← (← j.getObjVal? "ops").getArr?
    let ops ← opsj.toList.mapM jApiOp
    let s0 : ApiState := { natom := natom, cfgId := cfgId, cutoff := cutoff, disp := disp, forces := forces,
                           basis := [], fc := [] }
    let (sfin, outs) := ops.foldl (fun (acc : ApiState × List Json) op =>
      let (s', e) := step apiCfg acc.1 op
      (s', acc.2 ++ [Json.mkObj [("result", errJ e), ("state", stateJ s')]])) (s0, [])
    let _ := sfin
    pure (Json.arr outs.toArray)
  | "api_multi" =>
    -- several `Symfc` objects sharing basis-set dicts (Model/ApiMulti.lean), starting from no object
    let opsj ← (← j.getObjVal? "ops").getArr?
    let ops ← opsj.toList.mapM jMOp
    let (sfin, outs) := ops.foldl (fun (acc : MState × List Json) op =>
      let (s', e) := mstep apiCfg acc.1 op
      (s', acc.2 ++ [mStepJ s' op e])) (MState.empty, [])
    pure (Json.mkObj [("steps", Json.arr outs.toArray), ("basis", mBasisJ sfin)])
  | "check_orders" =>
    let m ← jOptNat j "max_order"; let o ← jOptNatList j "orders"
    match checkOrders apiCfg m o with
    | .ok os => pure (natsJ os)
    | .error e => pure (errJ (some e))
  | "eig_plan" =>
    let m ← jIntMat (← j.getObjVal? "m")
    let den ← jInt j "den"
    let cols := nonzeroCols m
    let mc := if (m.getD 0 #[]).size > cols.length then subMat m cols else m
    let blocks := findBlocks mc
    let (ents, _) := eigshPlan Gen.oneByOneRule mc den blocks
    pure (Json.mkObj [
      ("cols", natsJ cols), ("blocks", natMatJ blocks),
      ("entries", Json.arr (ents.map (fun e => Json.mkObj [
        ("kind", Json.str (if e.kind == .one then "one" else "solve")), ("labels", natsJ e.labels)])).toArray)])
  | "eig_placement" =>
    let blocks ← (← (← j.getObjVal? "blocks").getArr?).toList.mapM jNatList
    let entsj ← (← j.getObjVal? "entries").getArr?
    let ents ← entsj.toList.mapM (fun e => do
      let k ← (← e.getObjVal? "kind").getStr?
      let l ← jNatList (← e.getObjVal? "labels")
      pure ({ kind := if k == "one" then .one else .solve, labels := l } : UniqEntry))
    let ncols ← jNatList (← j.getObjVal? "ncols")
    let (pl, total) := placement blocks ents ncols
    pure (Json.mkObj [("ncol", Json.num (JsonNumber.fromNat total)),
      ("entries", Json.arr (pl.map (fun (a, b, c, d, e) => natsJ [a, b, c, d, e])).toArray)])
  | "sumrule_plan" =>
    let m ← jIntMat (← j.getObjVal? "m")
    let den ← jInt j "den"
    let blocks := findBlocks m
    pure (Json.mkObj [("blocks", natMatJ blocks),
      ("solved", Json.arr ((sumrulePlan m den blocks).map Json.bool).toArray)])
  | "block_bookkeeping" =>
    let sizes ← jNatList (← j.getObjVal? "sizes")
    let solved ← jNatList (← j.getObjVal? "solved")
    let found ← jNatList (← j.getObjVal? "found")
    let (a, b) := blockBookkeeping Gen.skippedSubBlockInComplement sizes (solved.map (· != 0)) found
    pure (natsJ [a, b])
  | "eig_consts" =>
    let p ← jNat j "p_size"
    pure (natsJ [Gen.eigSizeThreshold, targetSize Gen.eigTargetDiv Gen.eigTargetLo Gen.eigTargetHi p])
  | "fast_trans_perm" =>
    let S ← jInt j "S"
    let ps ← (← (← j.getObjVal? "positions").getArr?).toList.mapM jIntList
    let ts ← (← (← j.getObjVal? "translations").getArr?).toList.mapM jIntList
    pure (Json.mkObj [
      ("distinct", Json.bool (positionsDistinct S ps)),
      ("sorted_ids", natsJ (argsortPos S ps)),
      ("perms", Json.arr (ts.map (fun t => match fastTransPerm S ps t with
        | some tp => natsJ tp
        | none => Json.null)).toArray)])
  | "compose_out" =>
    let tp ← jNatList (← j.getObjVal? "tp")
    let perm ← jNatList (← j.getObjVal? "perm")
    pure (natsJ (composeOut tp perm))
  | "sg_permutations" =>
    -- the whole of compute_sg_permutations on grid inputs (Model/SgPermFull.lean): null or the (n_ops, N) table
    let S ← jInt j "S"
    let ps ← (← (← j.getObjVal? "positions").getArr?).toList.mapM jIntList
    let rots ← (← (← j.getObjVal? "rotations").getArr?).toList.mapM (fun r => do
      (← r.getArr?).toList.mapM jIntList)
    let ts ← (← (← j.getObjVal? "translations").getArr?).toList.mapM jIntList
    pure (match sgPermutations S ps rots ts with
      | some out => natMatJ out
      | none => Json.null)
  | "dist2" =>
    -- `_calc_distances` after the Niggli reduction (Model/Dist.lean): squared minimum-image distances, units 1/S²
    let S ← jInt j "S"
    let G ← (← (← j.getObjVal? "G").getArr?).toList.mapM jIntList
    let ps ← (← (← j.getObjVal? "positions").getArr?).toList.mapM jIntList
    pure (Json.arr ((dist2Matrix S G ps).map intsJ).toArray)
  | "dist_window" =>
    -- the decidable side conditions of Lemmas/Dist.lean (5³ / 7³ window, no coordinate on the rint boundary)
    let S ← jInt j "S"
    let G ← (← (← j.getObjVal? "G").getArr?).toList.mapM jIntList
    let ps ← (← (← j.getObjVal? "positions").getArr?).toList.mapM jIntList
    pure (Json.mkObj [("window5", Json.bool (WindowOK S G ps)), ("window7", Json.bool (WindowOK3 S G ps)),
                      ("no_boundary", Json.bool (noBoundary S ps))])
  | "round_half_even" =>
    let t ← jInt j "t"; let den ← jInt j "den"
    pure (Json.num (JsonNumber.fromInt (roundHalfEven t den)))
  | _ => throw s!"unknown op {op}"

partial def loop (h : IO.FS.Stream) (out : IO.FS.Stream) : IO Unit := do
  let line ← h.getLine
  if line.isEmpty then return ()
  let reply := match Json.parse line with
    | .error e => Json.mkObj [("error", Json.str s!"parse: {e}")]
    | .ok j => match handle j with
      | .ok r => Json.mkObj [("ok", r)]
      | .error e => Json.mkObj [("error", Json.str e)]
  out.putStrLn reply.compress
  out.flush
  loop h out

def main : IO Unit := do
  loop (← IO.getStdin) (← IO.getStdout)
