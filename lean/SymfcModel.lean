import SymfcModel.Model.Basic
import SymfcModel.Model.Types
import SymfcModel.Model.Cell
import SymfcModel.Model.Cutoff
import SymfcModel.Model.Perm
import SymfcModel.Gen.PermTables
import SymfcModel.Gen.Cutoff
