#!/usr/bin/env python3
"""check.py <property id> --quick | --thorough | --replay <file>

Decides one property of /verif/properties.jsonl for the CURRENT working tree of /repo:

  1. regenerate lean/SymfcModel/Gen/*.lean from /repo (tools/extract.py);
  2. `lake build` the property's theorem module, audit `#print axioms` of every theorem in it and grep
     for forbidden constructs;
  3. correspondence: real symfc (in-process, /venv/bin/python) vs the Lean model (Driver.lean);
  4. if 1-3 broke: search the real code for a failing input with the property's oracle; report
     `VIOLATION property=<id> replay=<path>` (with ` no-failing-input-found` if the search found none);
  5. the oracle also runs with a small budget when 1-3 passed (a test of the model's validity, labelled as such);
  6. failures matching known_findings.json are printed as KNOWN-FINDING and do not fail the check.

Exit: 0 held / 1 violation / 2 internal error or timeout.
"""
from __future__ import annotations

import hashlib
import json
import os
import re
import subprocess
import sys
import time
import traceback
from pathlib import Path

ROOT = Path(__file__).resolve().parent
LEAN = ROOT / "lean"
PY = "/venv/bin/python"
ALLOWED_AXIOMS = {"propext", "Classical.choice", "Quot.sound"}
FORBIDDEN = re.compile(r"\b(sorry|admit|native_decide|bv_decide|implemented_by|unsafe)\b|^\s*axiom\s|maxHeartbeats\s+0")

if os.path.realpath(sys.executable) != os.path.realpath(PY) and os.path.exists(PY) and not os.environ.get("VERIF_NO_REEXEC"):
    os.environ["VERIF_NO_REEXEC"] = "1"
    os.execv(PY, [PY, str(Path(__file__).resolve())] + sys.argv[1:])

sys.path.insert(0, str(ROOT))
os.environ.setdefault("OMP_NUM_THREADS", "4")
import warnings  # noqa: E402

warnings.filterwarnings("ignore")

from harness.registry import PROPS  # noqa: E402


def sh(cmd, cwd=None, timeout=3600):
    p = subprocess.run(cmd, cwd=cwd, shell=isinstance(cmd, str), capture_output=True, text=True, timeout=timeout)
    return p.returncode, p.stdout, p.stderr


# -------------------------------------------------------------------------------- translator + lean
def run_extract():
    rc, out, err = sh([sys.executable, str(ROOT / "tools" / "extract.py")])
    try:
        st = json.loads(out.strip().splitlines()[-1])
    except Exception:
        st = {"ok": False, "errors": [{"gen": "*", "error": (out + err)[-400:]}], "changed": []}
    man = {}
    try:
        man = json.loads((LEAN / "SymfcModel" / "Gen" / "manifest.json").read_text())
    except Exception:
        pass
    st["items"] = man.get("items", [])
    return st


def lean_imports(module: str, seen=None):
    seen = seen if seen is not None else set()
    if module in seen or not module.startswith("SymfcModel"):
        return seen
    seen.add(module)
    f = LEAN / (module.replace(".", "/") + ".lean")
    if f.exists():
        for m in re.findall(r"^import\s+(\S+)", f.read_text(), flags=re.M):
            lean_imports(m, seen)
    return seen


def strip_comments(text: str) -> str:
    text = re.sub(r"/-.*?-/", "", text, flags=re.S)
    return re.sub(r"--.*", "", text)


def lean_build(module: str):
    t = time.time()
    rc, out, err = sh(["lake", "build", module, "SymfcModel"], cwd=LEAN, timeout=3000)
    return {"ok": rc == 0, "log": (out + err)[-3000:], "wall_s": round(time.time() - t, 1)}


def theorem_names(module: str):
    f = LEAN / (module.replace(".", "/") + ".lean")
    if not f.exists():
        return []
    txt = strip_comments(f.read_text())
    ns = re.findall(r"^namespace\s+(\S+)", txt, flags=re.M)
    prefix = (ns[0] + ".") if ns else ""
    return [prefix + n for n in re.findall(r"^theorem\s+([^\s:({\[]+)", txt, flags=re.M)]


def audit(module: str, names):
    """#print axioms for every property theorem; forbidden-token grep over the import closure"""
    res = {"axioms": {}, "bad": [], "forbidden": []}
    if not names:
        return res
    src = f"import {module}\n" + "\n".join(f"#print axioms {n}" for n in names) + "\n"
    af = LEAN / ".lake" / f"audit_{module.split('.')[-1]}.lean"
    af.parent.mkdir(exist_ok=True)
    af.write_text(src)
    rc, out, err = sh(["lake", "env", "lean", str(af)], cwd=LEAN, timeout=1200)
    text = out + err
    for n in names:
        m = re.search(r"'" + re.escape(n) + r"' depends on axioms: \[([^\]]*)\]", text, flags=re.S)
        if m:
            ax = [a.strip() for a in m.group(1).replace("\n", " ").split(",") if a.strip()]
        elif re.search(r"'" + re.escape(n) + r"' does not depend on any axioms", text):
            ax = []
        else:
            ax = ["<audit failed>"]
        res["axioms"][n] = ax
        if not set(ax) <= ALLOWED_AXIOMS:
            res["bad"].append(n)
    for m in sorted(lean_imports(module)):
        f = LEAN / (m.replace(".", "/") + ".lean")
        if f.exists():
            for i, line in enumerate(strip_comments(f.read_text()).splitlines(), 1):
                if FORBIDDEN.search(line):
                    res["forbidden"].append(f"{m}:{i}: {line.strip()[:80]}")
    return res


# -------------------------------------------------------------------------------- known findings
def load_known():
    try:
        return json.loads((ROOT / "known_findings.json").read_text())
    except Exception:
        return {"findings": [], "fixed": []}


# -------------------------------------------------------------------------------- main
def write_replay(pid, payload):
    d = ROOT / "replays"
    d.mkdir(exist_ok=True)
    h = hashlib.sha1(json.dumps(payload, sort_keys=True, default=str).encode()).hexdigest()[:12]
    p = d / f"{pid}_{h}.json"
    p.write_text(json.dumps(payload, indent=1, default=str))
    return p


def do_replay(pid, path):
    from harness import oracles
    payload = json.loads(Path(path).read_text())
    if payload.get("kind") != "failing-input":
        print(f"replay file names a broken obligation, not an input: {payload.get('broken')}")
        print("re-run: python3 check.py", pid, "--quick")
        return 1
    fn = oracles.CHECKS[payload["oracle"]]
    fails = fn(payload["input"])
    for f in fails:
        print("STILL FAILS:", f if isinstance(f, str) else f.get("msg"))
    print(f"replay {path}: {len(fails)} failure(s)")
    return 1 if fails else 0


def main():
    if len(sys.argv) < 3:
        print(__doc__)
        return 2
    pid = sys.argv[1]
    mode = sys.argv[2]
    if pid not in PROPS:
        print("unknown property", pid)
        return 2
    if mode == "--replay":
        return do_replay(pid, sys.argv[3])
    tier = "thorough" if mode == "--thorough" else "quick"
    seed = int(os.environ.get("VERIF_SEED", "0") or 0)
    spec = PROPS[pid]
    t0 = time.time()
    from harness.common import jsonable
    from harness.gen import make_rng
    broken = []          # obligations / ties that no longer check
    notes = []

    # 1. translator
    ex = run_extract()
    module = spec["lean"]
    # the generated files this property's theorems and correspondence checks really depend on (registry);
    # a Gen file that could not be regenerated keeps its previous content, so unrelated properties still build
    gens_needed = set(spec.get("gen", []))
    for e in ex.get("errors", []):
        if e["gen"] == "*" or e["gen"] in gens_needed:
            broken.append({"kind": "translator", "what": e["error"]})

    # 2. lean build + audit
    b = lean_build(module)
    names = theorem_names(module)
    aud = {"axioms": {}, "bad": [], "forbidden": []}
    if not b["ok"]:
        errs = re.findall(r"error: ([^\n]*\n?[^\n]*)", b["log"])
        broken.append({"kind": "lean-build", "what": f"`lake build {module}` failed", "log": errs[:6] or b["log"][-600:]})
    else:
        aud = audit(module, names)
        for n in aud["bad"]:
            broken.append({"kind": "axiom-audit", "what": f"theorem {n} depends on {aud['axioms'][n]}"})
        for f in aud["forbidden"]:
            broken.append({"kind": "forbidden-construct", "what": f})
    discharged = 0 if not b["ok"] else sum(1 for n in names if n not in aud["bad"])
    if tier == "thorough" and b["ok"]:
        mods = sorted(m for m in lean_imports(module))
        rc, out, err = sh(["lake", "env", "leanchecker"] + mods, cwd=LEAN, timeout=3000)
        notes.append({"leanchecker_rc": rc, "modules": len(mods), "tail": (out + err)[-300:]})
        if rc != 0:
            broken.append({"kind": "leanchecker", "what": (out + err)[-400:]})

    # 3. correspondence
    results = []
    drv = None
    driver_ok = b["ok"]
    if driver_ok:
        try:
            from harness.lean_driver import Driver
            drv = Driver()
            drv.ask({"op": "batch_slice", "n": 3, "b": 2})
        except Exception as e:  # noqa
            driver_ok = False
            broken.append({"kind": "driver", "what": f"model driver does not start: {e}"[:400]})
    if driver_ok:
        for c in spec.get("corr", []):
            kw = dict(c.get(tier, c.get("quick", {})))
            rng = make_rng(seed, f"{pid}/{c['fn'].__name__}")
            try:
                r = c["fn"](rng, drv, **kw) if c.get("rng", True) else c["fn"](drv, **kw)
            except Exception as e:  # noqa
                tb = traceback.format_exc()[-1500:]
                from harness.common import Result
                r = Result(c["fn"].__name__, "correspondence")
                r.fail("correspondence harness crashed on the current tree", error=f"{type(e).__name__}: {e}"[:300], trace=tb)
            results.append(r)
            for f in r.failures:
                broken.append({"kind": "correspondence", "what": f"{r.name}: {f['what']}", "detail": jsonable(f)})
        if drv:
            drv.close()

    # 4./5. oracle (search when broken, standing test otherwise)
    oracle_fail = []
    # fixed witnesses of recorded findings run first (a KNOWN-FINDING line is printed for each on every run)
    for o in spec.get("corpus", []):
        try:
            r = o["fn"](None)
        except Exception as e:  # noqa
            from harness.common import Result
            r = Result(o["name"], "oracle")
            r.fail("corpus case crashed on the current tree", error=f"{type(e).__name__}: {e}"[:300],
                   trace=traceback.format_exc()[-1500:], oracle=o["name"], input=None)
        r.name = o["name"]
        results.append(r)
        for f in r.failures:
            oracle_fail.append((o, f))
    for o in spec.get("oracle", []):
        budget = dict(o.get(tier, o.get("quick", {})))
        if broken:
            budget = dict(o.get("search", o.get("thorough", budget)))
        rng = make_rng(seed, f"{pid}/{o['name']}")
        try:
            r = o["fn"](rng, **budget)
        except Exception as e:  # noqa
            from harness.common import Result
            r = Result(o["name"], "oracle")
            r.fail("oracle crashed on the current tree", error=f"{type(e).__name__}: {e}"[:300],
                   trace=traceback.format_exc()[-1500:], oracle=o["name"], input=None)
        results.append(r)
        for f in r.failures:
            oracle_fail.append((o, f))

    # 6. known findings
    known = load_known()
    violations = []
    known_hits = {}
    for o, f in oracle_fail:
        kf = None
        for k in known.get("findings", []):
            if pid in k["properties"] and spec.get("known") and spec["known"](k, f):
                kf = k
                break
        if kf:
            known_hits.setdefault(kf["id"], {"finding": kf, "n": 0, "example": f})
            known_hits[kf["id"]]["n"] += 1
        else:
            violations.append(f)

    lines = []
    exit_code = 0
    for fid, h in known_hits.items():
        lines.append(f"KNOWN-FINDING: property={pid} {fid} {h['finding']['signature']}: {h['example']['what'][:160]} "
                     f"({h['n']} occurrence(s) this run)")
    reported = set()
    for f in violations:
        payload = {"kind": "failing-input", "property": pid, "oracle": f.get("oracle"), "input": f.get("input"),
                   "observed": f["what"], "detail": f.get("detail"), "error": f.get("error"), "trace": f.get("trace"),
                   "broken_obligations": [x["what"] for x in broken][:10],
                   "replay_cmd": f"python3 check.py {pid} --replay <this file>"}
        p = write_replay(pid, payload)
        if str(p) not in reported:
            lines.append(f"VIOLATION property={pid} replay={p}")
            reported.add(str(p))
        exit_code = 1
    if broken and not violations:
        # a proof obligation or the tie to the code no longer checks and no failing input was found
        explained = bool(known_hits) and all(x["kind"] in spec.get("known_explains", ()) for x in broken)
        if not explained:
            payload = {"kind": "broken-obligation", "property": pid,
                       "broken": [{k: v for k, v in x.items() if k != "detail"} for x in broken][:20],
                       "details": [x.get("detail") for x in broken if x.get("detail")][:5],
                       "searched": [r.summary() for r in results if r.kind == "oracle"],
                       "note": "the theorem / correspondence named here no longer checks against the current source; "
                               "the failing-input search on the real code found no counterexample within its budget"}
            p = write_replay(pid, payload)
            lines.append(f"VIOLATION property={pid} replay={p} no-failing-input-found")
            exit_code = 1

    # evidence
    corr_res = [r for r in results if r.kind == "correspondence"]
    evals = sum(r.evaluations for r in results)
    dn = sum(r.distinct_nontrivial for r in results)
    samples = []
    for r in results:
        for s in r.samples[:2]:
            samples.append({"check": r.name, "case": jsonable(s)})
    for n in names[:3]:
        samples.append({"obligation": n, "axioms": aud["axioms"].get(n)})
    gen_items = [i for i in ex.get("items", []) if True]
    evidence = {
        "property_id": pid, "tier": tier, "seed": seed, "level": "proof",
        "coverage": {
            "obligations": max(1, len(names)) if names else 1,
            "discharged": discharged if names else 0,
            "theorems": {n: aud["axioms"].get(n) for n in names},
            "checker_cmd": f"cd lean && lake build {module} && lake env lean .lake/audit_{module.split('.')[-1]}.lean"
                           + (" && lake env leanchecker <modules>" if tier == "thorough" else ""),
            "trusted_base": spec.get("trusted", []) + [
                "Lean 4.33 kernel; axioms allowed: propext, Classical.choice, Quot.sound (audited by #print axioms each run)",
                "tools/extract.py (pattern-based AST translator) and the correspondence harness incl. its generators",
            ],
            "evaluations": evals, "distinct_nontrivial": dn,
            "traces_validated_against_impl": sum(r.evaluations for r in corr_res),
            "rule": spec.get("rule", "cases are generated from one PRNG (VERIF_SEED); a case is non-trivial if the cell "
                                     "has >= 2 lattice points or (for non-cell inputs) is structurally non-degenerate; "
                                     "distinct = distinct canonical JSON of the input"),
            "samples": samples[:12],
            "checks": [r.summary() for r in results],
            "translator": {"ok": ex.get("ok"), "errors": ex.get("errors"), "changed": ex.get("changed"),
                           "items_extracted": len(gen_items),
                           "items": [i for i in gen_items if any(g in json.dumps(i) for g in ("",))][:60]},
            "lean_build": {k: b[k] for k in ("ok", "wall_s")},
            "broken": [{k: v for k, v in x.items() if k != "detail"} for x in broken][:20],
            "known_findings_hit": {k: v["n"] for k, v in known_hits.items()},
            "notes": notes,
        },
        "assumptions": spec.get("assumptions", []),
        "wall_s": round(time.time() - t0, 2),
        "violations": len(violations) + (1 if (broken and not violations and exit_code) else 0),
    }
    (ROOT / "evidence").mkdir(exist_ok=True)
    (ROOT / "evidence" / f"{pid}.json").write_text(json.dumps(jsonable(evidence), indent=1, default=str))
    for ln in lines:
        print(ln)
    print(f"{pid} {tier}: theorems {discharged}/{len(names)} discharged, "
          f"{sum(r.evaluations for r in corr_res)} correspondence cases, "
          f"{sum(r.evaluations for r in results if r.kind == 'oracle')} oracle cases, "
          f"broken={len(broken)} violations={len(violations)} known={sum(v['n'] for v in known_hits.values())} "
          f"wall={time.time() - t0:.1f}s exit={exit_code}")
    return exit_code


class _WallClock(BaseException):
    pass


def _alarm(signum, frame):
    raise _WallClock()


if __name__ == "__main__":
    # overall wall-clock limit (a change to the library may hang): quick 20 min, thorough 90 min, replay 20 min;
    # override with VERIF_TIMEOUT_S. A timeout is an internal error (exit 2), never a violation.
    import signal
    limit = int(os.environ.get("VERIF_TIMEOUT_S", "5400" if "--thorough" in sys.argv else "1200"))
    try:
        signal.signal(signal.SIGALRM, _alarm)
        signal.alarm(limit)
    except (ValueError, AttributeError):
        pass
    try:
        sys.exit(main())
    except subprocess.TimeoutExpired as e:
        print("TIMEOUT", e)
        sys.exit(2)
    except _WallClock:
        print(f"TIMEOUT: {' '.join(sys.argv[1:3])} exceeded {limit} s")
        sys.exit(2)
