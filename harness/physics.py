"""Independent reference computations used by the oracles (numpy only; nothing from symfc except the
public classes under test)."""
from __future__ import annotations

import itertools

import numpy as np


def basis_cls(order):
    from symfc.basis_sets import FCBasisSetO2, FCBasisSetO3, FCBasisSetO4
    return {2: FCBasisSetO2, 3: FCBasisSetO3, 4: FCBasisSetO4}[order]


def solver_cls(orders):
    from symfc.solvers import FCSolverO2, FCSolverO2O3, FCSolverO2O3O4, FCSolverO3, FCSolverO3O4, FCSolverO4
    return {(2,): FCSolverO2, (3,): FCSolverO3, (4,): FCSolverO4, (2, 3): FCSolverO2O3, (3, 4): FCSolverO3O4,
            (2, 3, 4): FCSolverO2O3O4}[tuple(orders)]


_BASIS_CACHE = {}


def get_basis(crystal, order, cutoff=None, ops=None, key_extra=None):
    key = (crystal.lattice.tobytes(), crystal.positions.tobytes(), crystal.numbers.tobytes(), order, cutoff, key_extra)
    if key not in _BASIS_CACHE:
        _BASIS_CACHE[key] = basis_cls(order)(crystal.atoms(), cutoff=cutoff, spacegroup_operations=ops).run()
    return _BASIS_CACHE[key]


def clear_cache():
    _BASIS_CACHE.clear()


def tensor_shape(N, order, first=None):
    return tuple([N if first is None else first] + [N] * (order - 1) + [3] * order)


def expand(basis, coefs, N, order, compact=False):
    """full (or compact) tensor for a coefficient vector"""
    cm = basis.compact_compression_matrix if compact else basis.compression_matrix
    v = cm @ (basis.basis_set @ coefs)
    return np.asarray(v).reshape(tensor_shape(N, order, first=-1 if compact else None))


def perm_asymmetry(T, order):
    """max |T - T∘π| over the generating transpositions of S_n (pairs of (atom, cart) index pairs)"""
    worst = 0.0
    for a in range(order - 1):
        b = a + 1
        axes = list(range(2 * order))
        axes[a], axes[b] = axes[b], axes[a]
        axes[order + a], axes[order + b] = axes[order + b], axes[order + a]
        worst = max(worst, float(np.abs(T - np.transpose(T, axes)).max()))
    return worst


def atom_perm_of_op(crystal, r, t, symprec=1e-5):
    """independent geometric matching: atom i -> atom at r x_i + t (mod lattice); None if no bijection"""
    pos = crystal.positions
    L = crystal.lattice
    new = pos @ np.asarray(r).T + np.asarray(t)
    diff = new[:, None, :] - pos[None, :, :]
    diff -= np.rint(diff)
    dist = np.linalg.norm(diff @ L, axis=2)
    perm = np.full(len(pos), -1)
    for i in range(len(pos)):
        j = np.where(dist[i] < symprec)[0]
        if len(j) != 1:
            return None
        perm[i] = j[0]
    if len(set(perm.tolist())) != len(pos):
        return None
    if not np.array_equal(crystal.numbers[perm], crystal.numbers):
        return None
    return perm


def cart_rotation(crystal, r):
    Lt = crystal.lattice.T
    return Lt @ np.asarray(r) @ np.linalg.inv(Lt)


def apply_op(T, order, perm, R):
    """(g·T)[g(i1)..g(in); a1..an] = sum R[a1,b1]..R[an,bn] T[i1..in; b1..bn]"""
    letters = "abcdefgh"
    out = T
    for k in range(order):
        out = np.moveaxis(np.tensordot(R, out, axes=([1], [order + k])), 0, order + k)
    # out[i1..in] is the value that must sit at g(i1)..g(in)
    res = np.empty_like(out)
    idx = np.ix_(*([perm] * order))
    res[idx] = out
    return res


def spg_ops(crystal):
    import spglib
    s = spglib.get_symmetry((crystal.lattice, crystal.positions, crystal.numbers))
    return s["rotations"], s["translations"]


def taylor_forces(fcs: dict, u: np.ndarray) -> np.ndarray:
    """F[s,i,a] = - Phi2 u - 1/2 Phi3 u u - 1/6 Phi4 u u u   (fcs: order -> full tensor)"""
    S, N, _ = u.shape
    F = np.zeros((S, N, 3))
    if 2 in fcs:
        F -= np.einsum("ijab,sjb->sia", fcs[2], u)
    if 3 in fcs:
        F -= 0.5 * np.einsum("ijkabc,sjb,skc->sia", fcs[3], u, u)
    if 4 in fcs:
        F -= (1.0 / 6.0) * np.einsum("ijklabcd,sjb,skc,sld->sia", fcs[4], u, u, u)
    return F


def min_image_distances(crystal):
    """exhaustive minimum-image distances: all images t with |t_k| <= ceil(rho * |b*_k|) + 1, where rho
    bounds the distance from above (complete for any cell shape)."""
    L = crystal.lattice
    pos = crystal.positions
    N = len(pos)
    diff = pos[:, None, :] - pos[None, :, :]
    diff -= np.rint(diff)
    rho = float(np.linalg.norm(diff @ L, axis=2).max()) + 1e-9
    recip = np.linalg.inv(L)            # columns: b*_k (without 2 pi); |t_k| <= rho * |b*_k| bound
    bound = [int(np.ceil(rho * np.linalg.norm(recip[:, k]))) + 1 for k in range(3)]
    best = np.full((N, N), np.inf)
    for t in itertools.product(*[range(-b, b + 1) for b in bound]):
        d = np.linalg.norm((diff + np.array(t)) @ L, axis=2)
        best = np.minimum(best, d)
    return best


def reference_dimension(crystal, order, near=None, ops=None, tol=1e-8):
    """dimension of {T : permutation symmetric, invariant under every space-group operation, acoustic sum rule on
    every index, zero when two atoms are not `near`} by dense linear algebra (small cells only).
    Returns (dim, projector onto that space in the full element space)."""
    N = len(crystal.numbers)
    size = (3 * N) ** order
    shape = tensor_shape(N, order)
    rots, trans = ops if ops is not None else spg_ops(crystal)
    perms = []
    for r, t in zip(rots, trans):
        p = atom_perm_of_op(crystal, r, t)
        assert p is not None, "operation is not a symmetry of the crystal"
        perms.append((p, cart_rotation(crystal, r)))
    # allowed elements
    allowed = np.ones(shape, dtype=bool)
    if near is not None:
        for idx in itertools.product(range(N), repeat=order):
            ok = all(near[a, b] for a in idx for b in idx)
            if not ok:
                allowed[idx] = False
    amask = allowed.reshape(-1)
    cols = np.where(amask)[0]
    m = len(cols)
    E = np.zeros((size, m))
    E[cols, np.arange(m)] = 1.0

    def on_basis(fn):
        out = np.zeros((size, m))
        for k in range(m):
            out[:, k] = fn(E[:, k].reshape(shape)).reshape(-1)
        return out[cols]

    # S_n average
    def sn_avg(T):
        acc = np.zeros_like(T)
        cnt = 0
        for p in itertools.permutations(range(order)):
            axes = list(p) + [order + x for x in p]
            acc += np.transpose(T, axes)
            cnt += 1
        return acc / cnt

    def g_avg(T):
        acc = np.zeros_like(T)
        for p, R in perms:
            acc += apply_op(T, order, p, R)
        return acc / len(perms)

    Pp = on_basis(sn_avg)
    Pg = on_basis(g_avg)
    # sum rule on the first index (others follow from permutation symmetry)
    def sum_first(T):
        return T.sum(axis=0)
    A = np.zeros(((3 * N) ** order // N, m))
    for k in range(m):
        A[:, k] = sum_first(E[:, k].reshape(shape)).reshape(-1)
    Minv = Pp @ Pg
    # invariant space = range of the product of commuting projectors; intersect with ker A
    w, V = np.linalg.eigh((Minv + Minv.T) / 2)
    inv = V[:, w > 1 - 1e-6]
    # verify it really is invariant (commuting projectors)
    assert np.allclose(Pp @ inv, inv, atol=1e-8) and np.allclose(Pg @ inv, inv, atol=1e-8)
    B = A @ inv
    if B.size:
        u, s, vt = np.linalg.svd(B, full_matrices=True)
        rank = int((s > tol * max(1.0, s.max() if len(s) else 1.0)).sum())
        null = vt[rank:].T
    else:
        null = np.eye(inv.shape[1])
    W = inv @ null               # orthonormal columns in the allowed-element space
    full = np.zeros((size, W.shape[1]))
    full[cols] = W
    return W.shape[1], full


def ppqq_mask(N, order=4):
    """elements (i1 a1, .., i4 a4) whose four (atom, cart) pairs form the pattern two distinct pairs, each twice"""
    shape = tensor_shape(N, order)
    mask = np.zeros(shape, dtype=bool)
    pairs = [(i, a) for i in range(N) for a in range(3)]
    for p in pairs:
        for q in pairs:
            if p == q:
                continue
            for arr in set(itertools.permutations([p, p, q, q])):
                idx = tuple(x[0] for x in arr) + tuple(x[1] for x in arr)
                mask[idx] = True
    return mask.reshape(-1)


def restrict_zero(W, mask, tol=1e-9):
    """orthonormal basis of range(W) ∩ {x : x[mask] = 0}"""
    if W.shape[1] == 0:
        return W
    A = W[mask]
    u, sv, vt = np.linalg.svd(A, full_matrices=True)
    rank = int((sv > tol * max(1.0, sv.max() if len(sv) else 1.0)).sum())
    null = vt[rank:].T
    return W @ null
