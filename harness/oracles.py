"""Property oracles on the REAL code (failing-input search; in thorough mode also a standing test of the model's
validity). Every oracle is a pair: a generator of inputs and `check_<name>(inp) -> list[str]` of violations;
the same check function replays a stored input."""
from __future__ import annotations

import itertools
import json
import os

import numpy as np

from . import physics as ph
from .common import Hooks, Result, Timer
from .gen import PROTOTYPES, Crystal, build_supercell, crystal, hnf_matrices, random_triclinic

TOL = 1e-8


def _cr(inp) -> Crystal:
    c = inp["crystal"]
    return c if isinstance(c, Crystal) else Crystal.from_json(c)


def _near_from(crystal, cutoff):
    if cutoff is None:
        return None
    return ph.min_image_distances(crystal) < cutoff


def _basis(inp, order):
    cr = _cr(inp)
    cut = inp.get("cutoff", {}).get(str(order), inp.get("cutoff", {}).get(order)) if inp.get("cutoff") else None
    return ph.get_basis(cr, order, cutoff=cut)


def _rand_coef(seed, n):
    return np.random.default_rng(seed).normal(size=n)


def _orders(inp):
    return [int(o) for o in inp["orders"]]


def _explicit_ops(cr, mode_seed):
    """the crystal's own operations supplied by the caller, the same group in another order (seed % 4; 3: proper
    operations first, improper ones after them):
    0: identity first, the rest shuffled; 1: identity first, rotation-major ("for each point operation, for each
    lattice point"); 2: a NON-identity operation first, the identity second (so that the zero translation is still the
    first of the pure translations, which is all the code relies on), the rest shuffled — this last form is outside
    the wording of C11 ("any order that keeps the identity first") but inside C02/C14 (operations of the group as
    supplied), and the unchanged library handles it"""
    rots, trans = ph.spg_ops(cr)
    rs = np.random.default_rng(int(mode_seed))
    ok = np.array_equal(rots[0], np.eye(3, dtype=int)) and np.allclose(trans[0], 0)
    if not ok:
        return None
    idx = list(range(1, len(rots)))
    mode = int(mode_seed) % 4
    if mode == 3:
        # identity first, then all PROPER operations (shuffled), then all improper ones (shuffled independently)
        idx = [int(i) for i in rs.permutation(idx)]
        idx = [0] + [i for i in idx if np.linalg.det(rots[i]) > 0] + [i for i in idx if np.linalg.det(rots[i]) < 0]
    elif mode == 1:
        idx.sort(key=lambda i: (rots[i].reshape(-1).tolist(), np.round(trans[i], 6).tolist()))
        idx = [0] + idx
    else:
        idx = [int(i) for i in rs.permutation(idx)]
        nonid = [i for i in idx if not np.array_equal(rots[i], np.eye(3, dtype=int))]
        if mode == 2 and nonid:
            first = nonid[0]
            idx = [first, 0] + [i for i in idx if i != first]
        else:
            idx = [0] + idx
    return {"rotations": rots[idx], "translations": trans[idx]}


# ------------------------------------------------------------------ C01 / C02 / C03 / C08 / C09 basis-level
def check_basis_invariants(inp, which=("perm", "spg", "sum", "ortho", "compact")) -> list:
    """expanded basis of one order: permutation symmetry, space-group invariance under ALL operations,
    sum rule on every index, orthonormality, compact = full[p2s_map]"""
    cr = _cr(inp)
    N = len(cr.numbers)
    out = []
    hooks = inp.get("hooks") or {}
    with Hooks(**hooks):
        for order in _orders(inp):
            if inp.get("explicit_ops") is not None:
                ops = _explicit_ops(cr, inp["explicit_ops"])
                bs = ph.basis_cls(order)(cr.atoms(), cutoff=(inp.get("cutoff") or {}).get(str(order)),
                                         spacegroup_operations=ops).run()
            elif hooks:
                bs = ph.basis_cls(order)(cr.atoms(), cutoff=(inp.get("cutoff") or {}).get(str(order))).run()
            else:
                bs = _basis(inp, order)
            nb = bs.basis_set.shape[1]
            if nb == 0:
                continue
            B = bs.basis_set
            if "ortho" in which:
                e = float(np.abs(B.T @ B - np.eye(nb)).max())
                if e > 1e-8:
                    out.append(f"order {order}: basis_set columns not orthonormal (max dev {e:.2e})")
                cm = bs.compression_matrix
                cc = (cm.T @ cm).toarray()
                # compression matrix restricted to the range used by the basis
                G = B.T @ cc @ B
                e = float(np.abs(G - np.eye(nb)).max())
                if e > 1e-8:
                    out.append(f"order {order}: expanded basis not orthonormal (max dev {e:.2e})")
                e = float(np.abs(cc - np.eye(cc.shape[0])).max())
                if e > 1e-8:
                    out.append(f"order {order}: compression matrix columns not orthonormal (max dev {e:.2e})")
            for trial in range(2):
                coef = _rand_coef(1000 * order + trial, nb)
                T = ph.expand(bs, coef, N, order)
                scale = max(float(np.abs(T).max()), 1e-300)
                if "perm" in which:
                    a = ph.perm_asymmetry(T, order) / scale
                    if a > TOL:
                        out.append(f"order {order}: expanded basis not permutation symmetric (rel. asymmetry {a:.3e})")
                if "sum" in which:
                    for ax in range(order):
                        sres = float(np.abs(T.sum(axis=ax)).max()) / scale
                        if sres > 1e-7:
                            out.append(f"order {order}: sum over atom index {ax} is {sres:.3e} (relative)")
                if "spg" in which and trial == 0:
                    rots, trans = ph.spg_ops(cr)
                    for r, t in zip(rots, trans):
                        p = ph.atom_perm_of_op(cr, r, t)
                        if p is None:
                            out.append("spglib operation could not be matched geometrically (harness)")
                            break
                        d = float(np.abs(ph.apply_op(T, order, p, ph.cart_rotation(cr, r)) - T).max()) / scale
                        if d > 1e-7:
                            out.append(f"order {order}: not invariant under operation r={np.asarray(r).tolist()} "
                                       f"t={np.round(t, 6).tolist()} (rel. dev {d:.3e})")
                            break
                if "compact" in which and trial == 0:
                    Tc = ph.expand(bs, coef, N, order, compact=True)
                    p2s = bs.p2s_map
                    e = float(np.abs(Tc - T[p2s]).max()) / scale
                    if e > 1e-12:
                        out.append(f"order {order}: compact != full[p2s_map] (rel. dev {e:.3e})")
                    tp = bs.translation_permutations
                    for row in tp:
                        e = float(np.abs(T[np.ix_(*([row] * order))] - T).max()) / scale
                        if e > 1e-12:
                            out.append(f"order {order}: full tensor not invariant under a lattice translation ({e:.3e})")
                            break
    return out


def gen_basis_inputs(rng, n, max_N=(8, 6, 4), orders=(2, 3, 4), with_cutoff=True, min_nlp=1, protos=None,
                     round_decimals=None):
    for k in range(n):
        order = orders[k % len(orders)]
        cr = crystal(rng, max_N=max_N[order - 2], min_nlp=min_nlp, protos=protos, allow_random=protos is None)
        if round_decimals is not None:
            # coordinates as they are written in structure files: 1/3 -> 0.3333333 (the operations are then those
            # spglib finds at its default tolerance, which is what the library documents it uses)
            cr = Crystal(cr.name, cr.lattice, np.round(cr.positions, round_decimals), cr.numbers, cr.n_lp_expected,
                         dict(cr.meta, round_decimals=round_decimals))
        cutoff = None
        if with_cutoff and rng.random() < 0.4:
            d = ph.min_image_distances(cr)
            vals = np.unique(np.round(d[d > 1e-6], 6))
            if len(vals):
                i = rng.randrange(len(vals))
                hi = vals[i + 1] if i + 1 < len(vals) else vals[i] + 1.0
                cutoff = {str(order): float((vals[i] + hi) / 2)}
        yield {"crystal": cr, "orders": [order], "cutoff": cutoff}


# ------------------------------------------------------------------ C04 completeness
def check_completeness(inp) -> list:
    cr = _cr(inp)
    out = []
    for order in _orders(inp):
        cut = (inp.get("cutoff") or {}).get(str(order))
        if inp.get("hooks"):
            with Hooks(**inp["hooks"]):
                bs = ph.basis_cls(order)(cr.atoms(), cutoff=cut).run()
        else:
            bs = _basis(inp, order)
        near = _near_from(cr, cut)
        dim, W = ph.reference_dimension(cr, order, near=near)
        nb = bs.basis_set.shape[1]
        N = len(cr.numbers)
        if dim == 0 and nb == 0:
            continue
        full = np.asarray((bs.compression_matrix @ bs.basis_set))
        # span comparison: projector difference
        if nb != dim:
            # is the computed span at least inside the reference space?
            inside = float(np.abs(W @ (W.T @ full) - full).max()) if nb else 0.0
            # find an admissible element that is identically zero over the computed basis
            rowmax = np.abs(full).max(axis=1) if nb else np.zeros(W.shape[0])
            refmax = np.abs(W).max(axis=1)
            forced = np.where((rowmax < 1e-12) & (refmax > 1e-6))[0]
            ex = None
            if len(forced):
                idx = np.unravel_index(forced[0], ph.tensor_shape(N, order))
                ex = [int(x) for x in idx]
            f1 = {}
            if order == 4:
                # the space that finding F1 predicts exactly: admissible tensors that vanish on every (p,p,q,q) element
                W1 = ph.restrict_zero(W, ph.ppqq_mask(N))
                f1["f1_dim"] = int(W1.shape[1])
                if nb == W1.shape[1] and nb:
                    f1["f1_span_dev"] = float(np.abs(W1 @ (W1.T @ full) - full).max())
                elif nb == 0 and W1.shape[1] == 0:
                    f1["f1_span_dev"] = 0.0
            out.append({"msg": f"order {order}: {nb} basis vectors but the admissible space has dimension {dim} "
                               f"(computed span inside reference: dev {inside:.1e})",
                        "forced_zero_example": ex, "order": order, "n_forced_zero": int(len(forced)), "nb": int(nb), **f1})
        else:
            dev = float(np.abs(W @ (W.T @ full) - full).max())
            if dev > 1e-7:
                out.append({"msg": f"order {order}: basis has the right size {nb} but spans a different space (dev {dev:.2e})",
                            "order": order})
    return out


def is_ppqq_finding(fail: dict, inp) -> bool:
    """signature of known finding F1: order 4 and the forced-zero example has index pattern (p,p,q,q)"""
    if fail.get("order") != 4 or not fail.get("forced_zero_example"):
        return False
    ex = fail["forced_zero_example"]
    pairs = [(ex[k], ex[4 + k]) for k in range(4)]
    cnt = {}
    for p in pairs:
        cnt[p] = cnt.get(p, 0) + 1
    return sorted(cnt.values()) == [2, 2]


# ------------------------------------------------------------------ fits: C01-C03 on results, C05, C06, C13, C08
def _fit(cr, orders, d, f, compact=False, cutoff=None, batch_size=None, hooks=None, fresh=False):
    from symfc import Symfc
    with Hooks(**(hooks or {})):
        s = Symfc(cr.atoms(), displacements=d, forces=f, cutoff=None if cutoff is None else {int(k): v for k, v in cutoff.items()})
        if fresh or hooks:
            s.compute_basis_set(orders=list(orders))
        else:
            s.basis_set = {o: ph.get_basis(cr, o, cutoff=(cutoff or {}).get(str(o))) for o in orders}
        kw = {} if batch_size is None else {"batch_size": batch_size}
        s.solve(orders=list(orders), is_compact_fc=compact, **kw)
    return {o: s.force_constants[o] for o in orders}, s


def _dataset(inp, N):
    rs = np.random.default_rng(inp.get("data_seed", 0))
    S = inp["n_snap"]
    d = rs.normal(scale=inp.get("amp", 0.05), size=(S, N, 3))
    f = rs.normal(size=(S, N, 3))
    d, f = _dataset_kind(inp, d, f)
    return d, f


def _dataset_kind(inp, d, f):
    """datasets of the shapes users really supply: the undisplaced structure as first snapshot (with its residual
    forces), snapshots that occur twice (overlapping datasets concatenated)"""
    kind = inp.get("dataset_kind")
    if kind == "undisplaced_first":
        d = d.copy()
        d[0] = 0.0
    elif kind == "finite_displacement":
        # finite-displacement style data: a snapshot moves one coordinate (cycling through all of them), half of the
        # snapshots a second one; every other displacement is EXACTLY zero
        S_, N_ = d.shape[0], d.shape[1]
        amp = float(np.abs(d).mean()) * 1.5 or 0.03
        rk = np.random.default_rng(inp.get("data_seed", 0) + 3)
        d = np.zeros_like(d)
        for s_ in range(S_):
            c1 = s_ % (3 * N_)
            d[s_, c1 // 3, c1 % 3] = amp * rk.choice([-1.0, 1.0])
            if rk.random() < 0.5:
                c2 = int(rk.integers(0, 3 * N_))
                d[s_, c2 // 3, c2 % 3] += amp * rk.choice([-1.0, 1.0, 0.5])
    elif kind == "repeated":
        k = max(1, d.shape[0] // 5)
        d = np.concatenate([d, d[:k]])
        f = None if f is None else np.concatenate([f, f[:k]])
    return d, f


def _basis_sizes(cr, orders, cutoff):
    return {o: ph.get_basis(cr, o, cutoff=(cutoff or {}).get(str(o))).basis_set.shape[1] for o in orders}


def check_recovery(inp) -> list:
    """C05: synthetic admissible force constants -> Taylor forces -> every solver returns them"""
    cr = _cr(inp)
    N = len(cr.numbers)
    orders = _orders(inp)
    cutoff = inp.get("cutoff")
    sizes = _basis_sizes(cr, orders, cutoff)
    if any(v == 0 for v in sizes.values()):
        return []
    rs = np.random.default_rng(inp.get("data_seed", 0))
    truth = {}
    for o in orders:
        bs = ph.get_basis(cr, o, cutoff=(cutoff or {}).get(str(o)))
        truth[o] = ph.expand(bs, rs.normal(size=sizes[o]) * (10.0 ** (o - 2)), N, o)
    S = inp["n_snap"]
    u = rs.normal(scale=inp.get("amp", 0.05), size=(S, N, 3))
    u, _ = _dataset_kind(inp, u, None)
    F = ph.taylor_forces(truth, u)
    out = []
    try:
        got, sobj = _fit(cr, orders, u, F, compact=inp.get("compact", False), cutoff=cutoff,
                         batch_size=inp.get("batch_size"), hooks=inp.get("hooks"))
    except np.linalg.LinAlgError:
        return []          # snapshots do not determine the force constants
    for o in orders:
        ref = truth[o]
        g = got[o]
        if inp.get("compact", False):
            p2s = sobj.p2s_map
            ref = ref[p2s]
        if g.shape != ref.shape:
            out.append(f"order {o}: result shape {g.shape}, documented layout {ref.shape}")
            continue
        rel = float(np.abs(g - ref).max() / max(np.abs(ref).max(), 1e-300))
        if rel > inp.get("tol", 1e-6):
            out.append(f"solver {orders}: order {o} not recovered (rel. error {rel:.3e})")
    return out


def check_recovery_reference(inp) -> list:
    """C05 against the INDEPENDENT admissible space: force constants drawn from the dense reference space (all
    permutation-symmetric, space-group invariant, sum-rule obeying tensors) must be recovered by the fit."""
    cr = _cr(inp)
    N = len(cr.numbers)
    order = _orders(inp)[0]
    dim, W = ph.reference_dimension(cr, order)
    if dim == 0:
        return []
    rs = np.random.default_rng(inp.get("data_seed", 0))
    truth = (W @ rs.normal(size=dim)).reshape(ph.tensor_shape(N, order))
    S = inp.get("n_snap", int(np.ceil(3.0 * dim / (3 * N))) + 6)
    u = rs.normal(scale=0.05, size=(S, N, 3))
    F = ph.taylor_forces({order: truth}, u)
    try:
        got, _ = _fit(cr, [order], u, F, compact=False)
    except np.linalg.LinAlgError:
        return []
    rel = float(np.abs(got[order] - truth).max() / max(np.abs(truth).max(), 1e-300))
    if rel > 1e-6:
        nb = ph.get_basis(cr, order).basis_set.shape[1]
        return [{"msg": f"order {order}: admissible force constants (reference space of dimension {dim}) are not recovered "
                        f"(rel. error {rel:.3e}; basis has {nb} vectors)", "order": order, "dim": dim, "nb": int(nb)}]
    return []


def check_normal_equations(inp) -> list:
    """C06: residual orthogonal to the force pattern of every admissible direction; also C01-C03 on the result"""
    cr = _cr(inp)
    N = len(cr.numbers)
    orders = _orders(inp)
    cutoff = inp.get("cutoff")
    sizes = _basis_sizes(cr, orders, cutoff)
    if any(v == 0 for v in sizes.values()):
        return []
    d, f = _dataset(inp, N)
    if inp.get("confine"):
        d[:, :, 1:] = 0.0          # rank-deficient by construction: displacements along x only
    if inp.get("freeze_atom") is not None:
        d[:, int(inp["freeze_atom"]) % N, :] = 0.0      # one atom is never displaced (finite-displacement style data)
    out = []
    try:
        got, _ = _fit(cr, orders, d, f, compact=False, cutoff=cutoff, batch_size=inp.get("batch_size"),
                      hooks=inp.get("hooks"))
    except np.linalg.LinAlgError:
        return []          # "fails loudly" is allowed by the property
    for o in orders:
        if not np.all(np.isfinite(got[o])):
            return [f"solver {orders}: non-finite force constants of order {o} returned without an exception"]
    pred = ph.taylor_forces(got, d)
    r = f - pred
    rs = np.random.default_rng(7)
    # admissible directions: all orders mixed, and (for joint fits) each order alone, so that the weak high-order
    # columns of a small-amplitude dataset are measured on their own scale
    trials = [tuple(orders)] * 3 + ([(o,) for o in orders] * 2 if len(orders) > 1 else [])
    for which_orders in trials:
        delta = {}
        for o in which_orders:
            bs = ph.get_basis(cr, o, cutoff=(cutoff or {}).get(str(o)))
            delta[o] = ph.expand(bs, rs.normal(size=sizes[o]), N, o)
        Fd = ph.taylor_forces(delta, d)
        g = float(np.sum(r * Fd))
        den = float(np.linalg.norm(f) * np.linalg.norm(Fd)) + 1e-300
        if not (abs(g) / den <= inp.get("tol", 1e-6)):
            out.append(f"solver {orders}: residual not orthogonal to an admissible force pattern "
                       f"(normalised gradient {abs(g)/den:.3e})")
            break
    for o in orders:
        T = got[o]
        scale = max(float(np.abs(T).max()), 1e-300)
        a = ph.perm_asymmetry(T, o) / scale
        if a > 1e-7:
            out.append(f"fit result order {o}: not permutation symmetric ({a:.2e})")
        for ax in range(o):
            sr = float(np.abs(T.sum(axis=ax)).max()) / scale
            if sr > 1e-6:
                out.append(f"fit result order {o}: sum rule on index {ax} violated ({sr:.2e})")
    return out


def check_fit_relations(inp) -> list:
    """C13: linearity in forces, snapshot permutation, duplication, scaling; C11: batch sizes / forced batches;
    C08: compact vs full"""
    cr = _cr(inp)
    N = len(cr.numbers)
    orders = _orders(inp)
    cutoff = inp.get("cutoff")
    sizes = _basis_sizes(cr, orders, cutoff)
    if any(v == 0 for v in sizes.values()):
        return []
    d, f1 = _dataset(inp, N)
    rs = np.random.default_rng(inp.get("data_seed", 0) + 1)
    f2 = rs.normal(size=f1.shape)
    out = []

    def fit(dd, ff, **kw):
        return _fit(cr, orders, dd, ff, cutoff=cutoff, **kw)

    def cmp(a, b, what, tol=1e-6):
        for o in orders:
            sc = max(float(np.abs(a[o]).max()), float(np.abs(b[o]).max()), 1e-300)
            e = float(np.abs(a[o] - b[o]).max()) / sc
            if e > tol:
                out.append(f"solver {orders} order {o}: {what} (rel. dev {e:.3e})")
                return

    try:
        A, sobj = fit(d, f1)
        Bv, _ = fit(d, f2)
        al, be = 0.7, -1.3
        Cv, _ = fit(d, al * f1 + be * f2)
        cmp(Cv, {o: al * A[o] + be * Bv[o] for o in orders}, "fit not linear in forces")
        perm = rs.permutation(d.shape[0])
        Pm, _ = fit(d[perm], f1[perm], batch_size=inp.get("batch_size", 3))
        cmp(Pm, A, "fit changes when snapshots are reordered")
        Dp, _ = fit(np.concatenate([d, d]), np.concatenate([f1, f1]))
        cmp(Dp, A, "fit changes when the dataset is duplicated")
        Z, _ = fit(d, np.zeros_like(f1))
        for o in orders:
            if float(np.abs(Z[o]).max()) > 1e-10:
                out.append(f"order {o}: zero forces give non-zero force constants")
        if len(orders) == 1:
            n = orders[0]
            for s in (1.7, 1e-4):          # also a badly scaled dataset (other units): no absolute thresholds allowed
                Sc, _ = fit(s * d, s ** (n - 1) * f1)
                cmp(Sc, A, f"fit changes under (u, f) -> (s u, s^(n-1) f) with s = {s}")
        # the same numbers in another MEMORY LAYOUT (Fortran order; a view obtained by fancy-indexing the atom axis
        # twice): documented as equivalent inputs, the API keeps constructor arrays by reference
        Fo, _ = fit(np.asfortranarray(d), np.asfortranarray(f1))
        cmp(Fo, A, "fit depends on the memory layout of the dataset arrays (Fortran order)")
        pm = rs.permutation(N)
        inv = np.argsort(pm)
        Vw, _ = fit(d[:, pm][:, inv], f1[:, pm][:, inv])
        cmp(Vw, A, "fit depends on the memory layout of the dataset arrays (fancy-indexed view)")
        tiny = 1e-9
        Tn, _ = fit(d, tiny * f1)
        cmp(Tn, {o: tiny * A[o] for o in orders}, "fit not linear in forces for a tiny factor (1e-9)")
        for bsz in (1, 2, d.shape[0] + 5):
            Bb, _ = fit(d, f1, batch_size=bsz)
            cmp(Bb, A, f"fit depends on batch_size={bsz}", tol=1e-7)
        Hk, _ = fit(d, f1, hooks={"solver_nbatch": min(N, 2)}, fresh=False)
        cmp(Hk, A, "fit depends on the number of atom batches", tol=1e-7)
        Cc, sc_obj = _fit(cr, orders, d, f1, compact=True, cutoff=cutoff)
        p2s = sc_obj.p2s_map
        for o in orders:
            if Cc[o].shape != (len(p2s),) + A[o].shape[1:]:
                out.append(f"order {o}: compact shape {Cc[o].shape}")
            elif float(np.abs(Cc[o] - A[o][p2s]).max()) > 1e-12 * max(1.0, float(np.abs(A[o]).max())):
                out.append(f"order {o}: compact result differs from full[p2s_map]")
    except np.linalg.LinAlgError:
        return out
    return out


def gen_fit_inputs(rng, n, max_N=(6, 4, 3), combos=None):
    combos = combos or [(2,), (3,), (4,), (2, 3), (3, 4), (2, 3, 4)]
    lowsym = ["wurtzite", "tetragonal2", "ortho_inv", "mono", "hcp"]
    for k in range(n):
        orders = combos[k % len(combos)]
        mx = max_N[max(orders) - 2]
        for _ in range(50):
            cr = crystal(rng, max_N=mx, protos=lowsym)
            sizes = _basis_sizes(cr, orders, None)
            if all(v > 0 for v in sizes.values()) and sum(sizes.values()) < 400:
                break
        else:
            continue
        hooks = rng.choice([None, None, {"solver_nbatch": 2}])
        if rng.random() < 0.3:
            # "remainder atom batch" stream: an odd number of atoms (5 or 7) and 2 or 3 atom batches, so that the last
            # atom batch is SHORTER than the others (5 = 2+2+1, 7 = 3+3+1 / 2+2+2+1)
            for _ in range(200):
                cr2 = crystal(rng, max_N=7, min_N=5, protos=["sc", "bcc_prim", "fcc_prim", "hex1", "cscl"],
                              allow_random=rng.random() < 0.5)
                if len(cr2.numbers) in (5, 7):
                    sz2 = _basis_sizes(cr2, orders, None)
                    if all(v > 0 for v in sz2.values()) and sum(sz2.values()) < 400:
                        cr, sizes = cr2, sz2
                        hooks = {"solver_nbatch": rng.choice([2, 3])}
                        break
        N = len(cr.numbers)
        nb = sum(sizes.values())
        n_snap = int(np.ceil(3.0 * nb / (3 * N))) + 4
        if (k + k // len(combos)) % 3 == 2 or rng.random() < 0.15:
            # "long dataset" stream: more snapshots than the solvers' default batch size (100), with a remainder, so
            # that the snapshot-batch loop of EVERY solver (also those the API gives no batch_size) runs unequal batches
            n_snap = max(n_snap, rng.choice([101, 130, 137]))
        amp = 0.05
        if max(orders) <= 3 and rng.random() < 0.35:
            # small-amplitude stream (only where the normal equations stay well conditioned: orders <= 3)
            amp = rng.choice([1e-3, 3e-4])
        yield {"crystal": cr, "orders": list(orders), "n_snap": n_snap, "data_seed": rng.randrange(10 ** 6), "amp": amp,
               "dataset_kind": rng.choice([None, None, None, "undisplaced_first", "repeated", "finite_displacement"]),
               "tol": 1e-6 if amp >= 0.01 else 1e-5,
               "compact": rng.random() < 0.5, "batch_size": rng.choice([None, 1, 3, 7]),
               "hooks": hooks}


# ------------------------------------------------------------------ C08 full vs compact out of the solvers (larger cells)
def check_solver_full_compact(inp) -> list:
    """C08 on what the SOLVERS return (not the harness's own expansion): for 5..12-atom supercells with several
    lattice points the full output must be invariant under every lattice translation, the compact output must be
    full[p2s_map], and translating the compact blocks must reproduce the full tensor."""
    cr = _cr(inp)
    N = len(cr.numbers)
    orders = _orders(inp)
    sizes = _basis_sizes(cr, orders, None)
    if any(v == 0 for v in sizes.values()):
        return []
    d, f = _dataset(inp, N)
    out = []
    A, sobj = _fit(cr, orders, d, f, compact=False)
    Cc, cobj = _fit(cr, orders, d, f, compact=True)
    p2s = np.asarray(cobj.p2s_map)
    tp = np.asarray(cobj.basis_set[orders[0]].translation_permutations)
    for o in orders:
        T, Tc = A[o], Cc[o]
        scale = max(float(np.abs(T).max()), 1e-300)
        if T.shape[:o] != (N,) * o:
            out.append(f"order {o}: full shape {T.shape}")
            continue
        if Tc.shape != (len(p2s),) + T.shape[1:]:
            out.append(f"order {o}: compact shape {Tc.shape}")
            continue
        e = float(np.abs(Tc - T[p2s]).max()) / scale
        if e > 1e-10:
            out.append(f"order {o}: compact result differs from full[p2s_map] (rel. dev {e:.3e})")
        for row in tp:
            e = float(np.abs(T[np.ix_(*([row] * o))] - T).max()) / scale
            if e > 1e-10:
                out.append(f"order {o}: full tensor returned by the solver is not invariant under a lattice translation "
                           f"(rel. dev {e:.3e})")
                break
        # the full tensor recovered from the compact one by lattice translations
        R = np.zeros_like(T)
        for row in tp:
            inv = np.argsort(row)
            # R[row[p], row[j], ...] = Tc[p-th independent atom, j, ...]
            blk = Tc[np.ix_(np.arange(len(p2s)), *([inv] * (o - 1)))]
            R[row[p2s]] = blk
        e = float(np.abs(R - T).max()) / scale
        if e > 1e-10:
            out.append(f"order {o}: translating the compact blocks does not reproduce the full tensor (rel. dev {e:.3e})")
    return out


def gen_solver_full_compact_inputs(rng, n):
    combos = [(3,), (2, 3), (2,), (3, 4), (2, 3, 4), (4,)]
    protos = ["sc", "bcc_prim", "fcc_prim", "hex1", "cscl"]
    for k in range(n):
        orders = combos[k % len(combos)] if k % len(combos) < 3 or rng.random() < 0.5 else rng.choice(combos[:3])
        mx = 12 if max(orders) <= 3 else 4
        cr = None
        for _ in range(300):
            c = crystal(rng, max_N=mx, min_N=min(5, mx), protos=protos, allow_random=False, min_nlp=2)
            sizes = _basis_sizes(c, orders, None)
            if all(v > 0 for v in sizes.values()) and sum(sizes.values()) < 250:
                cr = c
                break
        if cr is None:
            continue
        N = len(cr.numbers)
        nb = sum(sizes.values())
        yield {"crystal": cr, "orders": list(orders), "n_snap": int(np.ceil(2.0 * nb / (3 * N))) + 4,
               "data_seed": rng.randrange(10 ** 6), "amp": 0.05}


# ------------------------------------------------------------------ C07 cutoff
def check_cutoff(inp) -> list:
    cr = _cr(inp)
    N = len(cr.numbers)
    order = _orders(inp)[0]
    out = []
    from symfc.utils.cutoff_tools import FCCutoff
    ref = ph.min_image_distances(cr)
    fc = FCCutoff(cr.atoms(), cutoff=1.0)
    dev = float(np.abs(fc.distances - ref).max())
    if dev > 1e-6:
        i, j = np.unravel_index(np.argmax(np.abs(fc.distances - ref)), ref.shape)
        out.append(f"minimum-image distance wrong for atoms ({i},{j}): code {fc.distances[i, j]:.6f}, exhaustive {ref[i, j]:.6f}")
        return out
    # the same crystal with every atom written with its own integer offset (coordinates in [-2, 3))
    off = np.random.default_rng(inp.get("seed", 0) + 5).integers(-2, 3, size=cr.positions.shape).astype(float)
    cr_off = Crystal(cr.name, cr.lattice, cr.positions + off, cr.numbers, cr.n_lp_expected, {})
    dev = float(np.abs(FCCutoff(cr_off.atoms(), cutoff=1.0).distances - ref).max())
    if dev > 1e-6:
        out.append(f"minimum-image distances change (by {dev:.4f}) when atoms are written with integer offsets of their "
                   f"fractional coordinates")
        return out
    # the same crystal with its lattice vectors listed in another order / with other signs (a signed permutation U of
    # the basis, coordinates transformed along) and turned by quarter turns about the Cartesian axes (a signed
    # permutation matrix Q with det +1): an orthogonal cell then no longer has a diagonal cell matrix
    rs_o = np.random.default_rng(inp.get("seed", 0) + 23)

    def signed_perm(proper):
        while True:
            M = np.zeros((3, 3))
            for r_, c_ in enumerate(rs_o.permutation(3)):
                M[r_, c_] = rs_o.choice([-1.0, 1.0])
            if not proper or np.linalg.det(M) > 0:
                return M
    U, Q = signed_perm(False), signed_perm(True)
    cr_o = Crystal(cr.name, U @ cr.lattice @ Q.T, cr.positions @ np.linalg.inv(U), cr.numbers, cr.n_lp_expected, {})
    dev = float(np.abs(FCCutoff(cr_o.atoms(), cutoff=1.0).distances - ref).max())
    if dev > 1e-6:
        out.append(f"minimum-image distances change (by {dev:.4f}) when the lattice vectors are re-listed as "
                   f"{U.astype(int).tolist()} and the crystal is turned by {Q.astype(int).tolist()}")
        return out
    vals = np.unique(np.round(ref[ref > 1e-6], 6))
    cuts = [float((a + b) / 2) for a, b in zip(vals[:-1], vals[1:])] + [float(vals[-1] + 0.5)] if len(vals) else []
    sel = inp.get("cut_indices")
    if sel is not None:
        cuts = [cuts[i] for i in sel if i < len(cuts)]
    elif len(vals):
        # radii just above / just below a neighbour shell (0.003 away from it: far above float noise, still strictly
        # between two consecutive distances) — a radius need not be a midpoint
        rs_e = np.random.default_rng(inp.get("seed", 0) + 31)
        extra = []
        for i in rs_e.permutation(len(vals))[:2]:
            lo = vals[i - 1] if i > 0 else 0.0
            hi = vals[i + 1] if i + 1 < len(vals) else vals[i] + 1.0
            if hi - vals[i] > 0.006:
                extra.append(float(vals[i] + 0.003))
            if vals[i] - lo > 0.006 and i > 0:
                extra.append(float(vals[i] - 0.003))
        cuts = sorted(set(cuts) | set(extra[:2]))
    dims = []
    nocut = ph.get_basis(cr, order, cutoff=None)
    for cval in cuts:
        bs = ph.get_basis(cr, order, cutoff=cval)
        nb = bs.basis_set.shape[1]
        dims.append(nb)
        if nb == 0:
            continue
        near = ref < cval
        T = ph.expand(bs, _rand_coef(5, nb), N, order)
        bad = 0
        for idx in itertools.product(range(N), repeat=order):
            if not all(near[a, b] for a in idx for b in idx):
                blk = T[idx]
                if np.any(blk != 0.0):
                    bad += 1
        if bad:
            out.append(f"order {order}, cutoff {cval:.4f}: {bad} atom tuples with a pair beyond the cutoff are not exactly zero")
        sub = check_basis_invariants({"crystal": cr, "orders": [order], "cutoff": {str(order): cval}},
                                     which=("perm", "sum", "spg"))
        out += [f"cutoff {cval:.4f}: {s}" for s in sub]

    def beyond_cutoff_nonzero(T, near):
        bad = 0
        for idx in itertools.product(range(N), repeat=order):
            if not all(near[a, b] for a in idx for b in idx) and np.any(T[idx] != 0.0):
                bad += 1
        return bad

    rs_c = np.random.default_rng(inp.get("seed", 0) + 11)
    if cuts and not out:
        # (a) the same cutoff requested through the API with a per-order dictionary whose OTHER orders carry other
        # values: the basis of this order must be the one the basis-set class gives for this order's value
        from symfc import Symfc
        sel_a = list(range(len(cuts))) if len(cuts) <= 4 else sorted(rs_c.choice(len(cuts), size=4, replace=False).tolist())
        for ci in sel_a:
            cval = cuts[ci]
            # (also a value below the nearest-neighbour distance: harmless for the orders that are not computed)
            others = [c for c in cuts if c != cval] + [cval + 1.0, 0.5 * float(vals[0])]
            cd = {o: (cval if o == order else float(others[int(rs_c.integers(0, len(others)))])) for o in (2, 3, 4)}
            direct = ph.get_basis(cr, order, cutoff=cval)
            try:
                api = Symfc(cr.atoms(), cutoff=cd).compute_basis_set(orders=[order]).basis_set[order]
                nb_api = api.basis_set.shape[1]
            except ValueError:
                api, nb_api = None, 0
            if nb_api != direct.basis_set.shape[1]:
                out.append(f"order {order}: Symfc with cutoff {cd} gives {nb_api} basis vectors, the basis-set class with "
                           f"cutoff {cval:.4f} gives {direct.basis_set.shape[1]}")
            elif nb_api:
                T = ph.expand(api, _rand_coef(6, nb_api), N, order)
                bad = beyond_cutoff_nonzero(T, ref < cval)
                if bad:
                    out.append(f"order {order}: Symfc with cutoff {cd}: {bad} atom tuples with a pair beyond {cval:.4f} are not zero")
                A = _projector(api)
                B = _projector(direct)
                if float(np.abs(A @ (A.T @ B) - B).max()) > 1e-7:
                    out.append(f"order {order}: Symfc with cutoff {cd} spans another space than the basis-set class with {cval:.4f}")
        # (b) the same cutoff VALUE straight afterwards on the same supercell with a uniformly expanded lattice (same
        # translation permutations, other distances): what is out of range is decided by the new geometry
        cval = cuts[int(rs_c.integers(0, len(cuts)))]
        sc = float(rs_c.choice([1.3, 1.6, 0.7]))
        cr_s = Crystal(cr.name, cr.lattice * sc, cr.positions, cr.numbers, cr.n_lp_expected, {})
        near_s = ref * sc < cval
        offdiag = ref[ref > 1e-6] * sc
        # (a cutoff that leaves no pair of distinct atoms in range is outside the domain: DESIGN.md section 7, (ii))
        if abs(ref * sc - cval).min() > 1e-4 and offdiag.size and offdiag.min() < cval:
            try:
                ph.basis_cls(order)(cr.atoms(), cutoff=cval).run()        # the unscaled one, straight before
            except ValueError:
                pass
            try:
                bs_s = ph.basis_cls(order)(cr_s.atoms(), cutoff=cval).run()
                nb_s = bs_s.basis_set.shape[1]
            except ValueError:
                bs_s, nb_s = None, 0
            if nb_s:
                T = ph.expand(bs_s, _rand_coef(7, nb_s), N, order)
                bad = beyond_cutoff_nonzero(T, near_s)
                if bad:
                    out.append(f"order {order}, cutoff {cval:.4f} on the lattice scaled by {sc} (computed straight after the "
                               f"unscaled one): {bad} atom tuples with a pair beyond the cutoff are not exactly zero")
            if bool(near_s.all()):
                nb0_ = nocut.basis_set.shape[1]
                if nb_s != nb0_:
                    out.append(f"order {order}, cutoff {cval:.4f} on the lattice scaled by {sc}: every pair is in range but "
                               f"the basis has {nb_s} vectors, without a cutoff {nb0_}")
    for a, b, c1, c2 in zip(dims[:-1], dims[1:], cuts[:-1], cuts[1:]):
        if b < a:
            out.append(f"order {order}: enlarging the cutoff {c1:.4f} -> {c2:.4f} shrinks the basis {a} -> {b}")
    if dims and cuts and sel is None:
        nb0 = nocut.basis_set.shape[1]
        if dims[-1] != nb0:
            out.append(f"order {order}: cutoff beyond the largest distance gives {dims[-1]} vectors, no cutoff gives {nb0}")
        elif nb0:
            bs = ph.get_basis(cr, order, cutoff=cuts[-1])
            A = np.asarray(bs.compression_matrix @ bs.basis_set)
            B = np.asarray(nocut.compression_matrix @ nocut.basis_set)
            dev = float(np.abs(A @ (A.T @ B) - B).max())
            if dev > 1e-7:
                out.append(f"order {order}: large cutoff spans a different space than no cutoff (dev {dev:.2e})")
    return out


# ------------------------------------------------------------------ C10 description independence
def _projector(bs):
    A = np.asarray(bs.compression_matrix @ bs.basis_set)
    return A


def check_description(inp) -> list:
    cr = _cr(inp)
    order = _orders(inp)[0]
    N = len(cr.numbers)
    out = []
    cutv = inp.get("cutoff_value")
    mk = lambda crystal_: ph.basis_cls(order)(crystal_.atoms(), cutoff=cutv).run()
    base = mk(cr)
    A = _projector(base)
    nb = A.shape[1]
    shape = ph.tensor_shape(N, order)

    def compare(B, what, transform=None):
        if B.shape[1] != nb:
            out.append(f"order {order}: {what}: basis size {nb} -> {B.shape[1]}")
            return
        if nb == 0:
            return
        A2 = A if transform is None else transform(A)
        dev = float(np.abs(B @ (B.T @ A2) - A2).max())
        if dev > 1e-6:
            out.append(f"order {order}: {what}: span changes (dev {dev:.2e})")

    rs = np.random.default_rng(inp.get("seed", 0))
    kind = inp["kind"]
    if kind == "permute":
        p = rs.permutation(N)        # new atom k = old atom p[k]
        cr2 = Crystal(cr.name, cr.lattice, cr.positions[p], cr.numbers[p], cr.n_lp_expected, {})
        B = _projector(mk(cr2))

        def tr(M):
            T = M.reshape(shape + (-1,))
            idx = np.ix_(*([p] * order))
            return T[idx].reshape(M.shape)
        compare(B, "atom permutation", tr)
    elif kind in ("shift", "wrap"):
        sh = np.array(inp["shift"])
        pos = cr.positions + sh[None, :]
        cr2 = Crystal(cr.name, cr.lattice, pos, cr.numbers, cr.n_lp_expected, {})
        B = _projector(mk(cr2))
        compare(B, f"{kind} {sh.tolist()}")
    elif kind == "wrap_each":
        # every atom written with its OWN integer offset (coordinates anywhere in [-2, 3)): the same crystal
        off = np.random.default_rng(inp.get("seed", 0) + 17).integers(-2, 3, size=cr.positions.shape).astype(float)
        cr2 = Crystal(cr.name, cr.lattice, cr.positions + off, cr.numbers, cr.n_lp_expected, {})
        B = _projector(mk(cr2))
        compare(B, "per-atom integer offsets of the fractional coordinates")
    elif kind == "unimodular":
        U = np.array(inp["U"])
        L2 = U @ cr.lattice
        pos2 = cr.positions @ np.linalg.inv(U)
        cr2 = Crystal(cr.name, L2, pos2, cr.numbers, cr.n_lp_expected, {})
        B = _projector(mk(cr2))
        compare(B, f"unimodular basis change {U.tolist()}")
    elif kind in ("rotate", "reorient"):
        Q = np.array(inp["Q"])
        L2 = cr.lattice @ Q.T
        pos2 = cr.positions
        if kind == "reorient":
            # lattice vectors re-listed / re-signed (U) AND the crystal turned by quarter turns (Q): an orthogonal cell
            # keeps orthogonal lattice vectors but its cell matrix is no longer diagonal
            U = np.array(inp["U"], dtype=float)
            L2 = U @ cr.lattice @ Q.T
            pos2 = cr.positions @ np.linalg.inv(U)
        cr2 = Crystal(cr.name, L2, pos2, cr.numbers, cr.n_lp_expected, {})
        B = _projector(mk(cr2))

        def tr(M):
            T = M.reshape(shape + (-1,))
            for k in range(order):
                T = np.moveaxis(np.tensordot(Q, T, axes=([1], [order + k])), 0, order + k)
            return T.reshape(M.shape)
        compare(B, "rigid rotation" if kind == "rotate" else f"re-listed lattice vectors {inp['U']} and quarter turns {inp['Q']}", tr)
    return out


def gen_description_inputs(rng, n, max_N=(6, 4, 3)):
    for k in range(n):
        order = (2, 3, 2, 3, 4)[(k + k // 7) % 5]      # every kind meets every order
        kind = ["permute", "shift", "wrap", "unimodular", "rotate", "wrap_each", "reorient"][k % 7]
        if kind == "reorient" and rng.random() < 0.7:
            cr = crystal(rng, max_N=max_N[order - 2], protos=["sc", "cscl", "tetragonal2", "ortho_inv"], allow_random=False)
        else:
            cr = crystal(rng, max_N=max_N[order - 2])
        inp = {"crystal": cr, "orders": [order], "kind": kind, "seed": rng.randrange(10 ** 6)}
        if rng.random() < (0.5 if kind != "reorient" else 0.85):
            dd = ph.min_image_distances(cr)
            vals = np.unique(np.round(dd[dd > 1e-6], 6))
            if len(vals) > 1:
                i = rng.randrange(len(vals) - 1)
                inp["cutoff_value"] = float((vals[i] + vals[i + 1]) / 2)
        if kind == "shift":
            base = rng.choice([0.5, 0.25, 0.0, 1 / 3])
            inp["shift"] = [base - rng.choice([0, 1e-9, -1e-9, 1e-7]) - float(cr.positions[0][a]) * rng.choice([0, 1])
                            for a in range(3)]
        if kind == "wrap":
            inp["shift"] = [float(rng.randint(-2, 2)) for _ in range(3)]
        def signed_perm():
            M = np.zeros((3, 3), dtype=int)
            pp = [0, 1, 2]
            rng.shuffle(pp)
            for r_, c_ in enumerate(pp):
                M[r_, c_] = rng.choice([-1, 1])
            return M
        if kind == "unimodular":
            while True:
                U = np.array([[rng.randint(-1, 1) for _ in range(3)] for _ in range(3)])
                if round(abs(np.linalg.det(U))) == 1:
                    break
            if rng.random() < 0.35:
                U = signed_perm()            # the lattice vectors merely re-listed (c, a, b) / with other signs
            inp["U"] = U.tolist()
        if kind == "reorient":
            inp["U"] = signed_perm().tolist()
            while True:
                Q = signed_perm()
                if round(np.linalg.det(Q)) == 1:
                    break
            inp["Q"] = Q.astype(float).tolist()
        if kind == "rotate":
            nprng = np.random.default_rng(rng.getrandbits(32))
            Q, _ = np.linalg.qr(nprng.normal(size=(3, 3)))
            if rng.random() < 0.35:
                Q = signed_perm().astype(float)      # quarter turns (possibly with an inversion) about the axes
            inp["Q"] = Q.tolist()
        yield inp


# ------------------------------------------------------------------ C11 evaluation paths (basis level)
def check_paths(inp) -> list:
    cr = _cr(inp)
    order = _orders(inp)[0]
    out = []
    base = ph.basis_cls(order)(cr.atoms()).run()
    A = _projector(base)

    def compare(bs, what):
        B = _projector(bs)
        if B.shape[1] != A.shape[1]:
            out.append(f"order {order}: {what}: basis size {A.shape[1]} -> {B.shape[1]}")
        elif A.shape[1]:
            dev = float(np.abs(B @ (B.T @ A) - A).max())
            if dev > 1e-6:
                out.append(f"order {order}: {what}: span changes (dev {dev:.2e})")

    import contextlib
    import io
    for hooks in inp["hook_sets"]:
        hooks = dict(hooks)
        ll = hooks.pop("_log_level", 0)
        with Hooks(**hooks), contextlib.redirect_stdout(io.StringIO()):
            try:
                bs = ph.basis_cls(order)(cr.atoms(), log_level=ll).run()
            except ValueError as e:
                if "range() arg 3" in str(e):
                    continue        # forced batch count larger than the number of combinations
                raise
        compare(bs, f"hooks {hooks}" + (f" log_level={ll}" if ll else ""))
    # explicit operations, shuffled (identity first)
    rots, trans = ph.spg_ops(cr)
    rs = np.random.default_rng(inp.get("seed", 0))
    idx = [0] + (1 + rs.permutation(len(rots) - 1)).tolist()
    ops = {"rotations": rots[idx], "translations": trans[idx]}
    if not (np.array_equal(rots[0], np.eye(3, dtype=int)) and np.allclose(trans[0], 0)):
        pass
    else:
        bs = ph.basis_cls(order)(cr.atoms(), spacegroup_operations=ops).run()
        compare(bs, "explicit shuffled operations")
    bs = ph.basis_cls(order)(cr.atoms(), log_level=0).run()
    compare(bs, "second run (determinism)")
    # log level 1 (the verbose branches of every stage; their output is discarded)
    import contextlib
    import io
    with contextlib.redirect_stdout(io.StringIO()):
        bs = ph.basis_cls(order)(cr.atoms(), log_level=1).run()
    compare(bs, "log_level=1")
    # the projector-based REFERENCE variant shipped in the package (projector_permutation_lat_trans_O{n} + eigsh) against
    # the fast pointer-based permutation stage, with and without a cutoff: same subspace of the class space
    import importlib
    from symfc.utils.cutoff_tools import FCCutoff
    from symfc.utils.eig_tools import eigsh_projector
    mt = importlib.import_module(f"symfc.utils.matrix_tools_O{order}")
    pt = importlib.import_module(f"symfc.utils.permutation_tools_O{order}")
    tp = base.translation_permutations
    ad = base._atomic_decompr_idx
    cuts = [None]
    dd = ph.min_image_distances(cr)
    vals = np.unique(np.round(dd[dd > 1e-6], 6))
    if len(vals) >= 2:
        i = int(rs.integers(1, len(vals)))
        cuts.append(float((vals[i - 1] + vals[i]) / 2))
    for cv in cuts:
        fc = None if cv is None else FCCutoff(cr.atoms(), cutoff=cv)
        Pref = getattr(mt, f"projector_permutation_lat_trans_O{order}")(tp, atomic_decompr_idx=ad, fc_cutoff=fc)
        cref = eigsh_projector(Pref, verbose=False).toarray()
        c = getattr(pt, f"compr_permutation_lat_trans_O{order}")(tp, atomic_decompr_idx=ad, fc_cutoff=fc).toarray()
        if cref.shape[1] != c.shape[1]:
            out.append(f"order {order}: projector-based permutation stage gives {cref.shape[1]} vectors, the fast one "
                       f"{c.shape[1]} (cutoff {cv})")
        elif c.shape[1] and float(np.abs(cref @ cref.T - c @ c.T).max()) > 1e-8:
            out.append(f"order {order}: projector-based and fast permutation stages span different spaces (cutoff {cv})")
    return out


# ------------------------------------------------------------------ C14 permutations of space-group operations
def check_sg_perms(inp) -> list:
    cr = _cr(inp)
    out = []
    from symfc.spg_reps import SpgRepsBase
    from symfc.utils.utils import compute_sg_permutations
    rots, trans = ph.spg_ops(cr)
    if inp.get("subgroup"):
        keep = [i for i in range(len(rots)) if np.array_equal(rots[i], np.eye(3, dtype=int))
                or np.array_equal(rots[i], -np.eye(3, dtype=int))]
        rots, trans = rots[keep], trans[keep]
    # the ORDER in which the caller lists the operations is free (spglib lists translation-major)
    mode = inp.get("op_order", "spglib")
    rs_o = np.random.default_rng(inp.get("seed", 0))
    if mode == "shuffled":
        idx = rs_o.permutation(len(rots))
    elif mode == "identity_first_shuffled":
        idx = np.concatenate([[0], 1 + rs_o.permutation(len(rots) - 1)])
    elif mode == "by_rotation":
        idx = np.array(sorted(range(len(rots)), key=lambda i: (tuple(np.asarray(rots[i]).reshape(-1).tolist()), i)))
    else:
        idx = np.arange(len(rots))
    rots, trans = rots[idx], trans[idx]
    perms = compute_sg_permutations(cr.positions, rots, trans, cr.lattice.T, 1e-5)
    for k, (r, t) in enumerate(zip(rots, trans)):
        ref = ph.atom_perm_of_op(cr, r, t)
        if ref is None:
            out.append("harness could not match an operation geometrically")
            break
        if not np.array_equal(perms[k], ref):
            out.append(f"operation {k} (r={np.asarray(r).tolist()}, t={np.round(t, 6).tolist()}): permutation "
                       f"{perms[k].tolist()} but atoms move as {ref.tolist()}")
            break
    # Cartesian rotation matrices of the coset representatives: r_c = L r L^-1 (L = lattice vectors as columns), and
    # the order-2 representation kron(r_c, r_c)
    from symfc.spg_reps import SpgRepsO1, SpgRepsO2
    ops_d = {"rotations": rots, "translations": trans}
    LT = cr.lattice.T
    for cls_, power in ((SpgRepsO1, 1), (SpgRepsO2, 2)):
        sr_ = cls_(cr.atoms(), spacegroup_operations=ops_d)
        for r_int, rep in zip(sr_._unique_rotations, sr_.r_reps):
            r_c = LT @ r_int @ np.linalg.inv(LT)
            want = r_c if power == 1 else np.kron(r_c, r_c)
            got = rep.toarray() if hasattr(rep, "toarray") else np.asarray(rep)
            if got.shape != want.shape or float(np.abs(got - want).max()) > 1e-8:
                out.append(f"{cls_.__name__}: rotation matrix of {np.asarray(r_int).tolist()} differs from the Cartesian "
                           f"rotation L r L^-1" + ("" if power == 1 else " (Kronecker square)"))
                break
    sr = SpgRepsBase(cr.atoms(), spacegroup_operations={"rotations": rots, "translations": trans})
    tp = sr.translation_permutations
    n_lp = tp.shape[0]
    if n_lp != cr.n_lp_expected and not inp.get("subgroup"):
        out.append(f"{n_lp} pure translations found, supercell has {cr.n_lp_expected} lattice points")
    N = len(cr.numbers)
    if len({tuple(x) for x in tp.tolist()}) != n_lp:
        out.append("translation permutations are not distinct")
    for row in tp[1:]:
        if np.any(row == np.arange(N)):
            out.append("a non-identity lattice translation fixes an atom")
            break
    p2s = sr.p2s_map
    orbits = {}
    for i in range(N):
        orbits.setdefault(int(min(tp[:, i])), set()).add(i)
    if sorted(orbits) != sorted(p2s.tolist()) or list(p2s) != sorted(p2s.tolist()):
        out.append(f"p2s_map {p2s.tolist()} is not the list of lowest atoms of the translation orbits {sorted(orbits)}")
    if any(len(set(tp[:, i])) != n_lp for i in range(N)):
        out.append("an atom orbit under lattice translations does not have n_lp members")
    # composition: perm(g h) = perm(g) o perm(h) for operations in the list
    keyf = lambda r, t: (tuple(np.asarray(r).reshape(-1).tolist()), tuple(np.round((t - np.floor(t + 1e-6)), 4) % 1.0))
    for a in range(min(len(rots), 6)):
        for b in range(min(len(rots), 6)):
            r3 = rots[a] @ rots[b]
            t3 = rots[a] @ trans[b] + trans[a]
            ref = ph.atom_perm_of_op(cr, r3, t3)
            comp = perms[a][perms[b]]
            if ref is not None and not np.array_equal(comp, ref):
                out.append(f"permutations do not compose like the operations ({a} o {b})")
                return out
    return out


# ------------------------------------------------------------------ C15 eigen-solvers (numeric, planted spectra)
def check_eig(inp) -> list:
    import scipy.sparse as sp
    import symfc.utils.eig_tools as et
    M = np.array(inp["matrix"])
    n = M.shape[0]
    w, V = np.linalg.eigh(M)
    unit = V[:, np.isclose(w, 1.0, atol=1e-9)]
    out = []
    P = sp.csr_array(M)
    import contextlib
    import io

    def quiet(fn_):
        def run():
            with contextlib.redirect_stdout(io.StringIO()):
                return fn_()
        return run
    solvers = {"eigsh_projector": lambda: et.eigsh_projector(P, verbose=False).toarray(),
               "eigsh_projector_sumrule_stable": lambda: et.eigsh_projector_sumrule_stable(P, verbose=False),
               "eigsh_projector_sumrule_large": lambda: et.eigsh_projector_sumrule_large(P, verbose=False),
               # the verbose branches (log_level > 0) must return the same thing; their output is discarded
               "eigsh_projector[verbose]": quiet(lambda: et.eigsh_projector(P, verbose=True).toarray()),
               "eigsh_projector_sumrule_stable[verbose]": quiet(lambda: et.eigsh_projector_sumrule_stable(P, verbose=True)),
               "eigsh_projector_sumrule_large[verbose]": quiet(lambda: et.eigsh_projector_sumrule_large(P, verbose=True))}
    with Hooks(**(inp.get("hooks") or {})):
        for name, fn in solvers.items():
            try:
                E = np.asarray(fn())
            except Exception as e:  # noqa
                out.append(f"{name}: raised {type(e).__name__}: {str(e)[:80]}")
                continue
            if E.shape[1] != unit.shape[1]:
                out.append(f"{name}: {E.shape[1]} columns, unit eigenspace has dimension {unit.shape[1]}")
                continue
            if E.shape[1]:
                if float(np.abs(E.T @ E - np.eye(E.shape[1])).max()) > 1e-8:
                    out.append(f"{name}: columns not orthonormal")
                if float(np.abs(unit @ (unit.T @ E) - E).max()) > 1e-7:
                    out.append(f"{name}: columns are not in the unit eigenspace")
    return out


def gen_eig_inputs(rng, n):
    for k in range(n):
        nprng = np.random.default_rng(rng.getrandbits(32))
        nblocks = rng.randint(1, 4)
        blocks = []
        for _ in range(nblocks):
            m = rng.choice([1, 1, 2, 3, 5, 8])
            kind = rng.choice(["proj", "spectrum", "zero", "dup", "tilted"])
            if kind == "dup" and blocks:
                blocks.append(rng.choice(blocks).copy())
                continue
            if kind == "tilted" and m >= 2:
                # an exact projector seen in a frame tilted by a small angle: rows with a tiny diagonal (theta^2) that
                # still carry couplings of order theta — they belong to the block and must not be dropped as "zero rows"
                ev = np.array([1.0] + [rng.choice([0.0, 1.0]) for _ in range(m - 2)] + [0.0])
                th = rng.choice([3e-5, 1e-5, 6e-5, 2e-4, 1e-3])
                G = np.eye(m)
                G[0, 0] = G[m - 1, m - 1] = np.cos(th)
                G[0, m - 1], G[m - 1, 0] = -np.sin(th), np.sin(th)
                B = G @ np.diag(ev) @ G.T
                blocks.append((B + B.T) / 2)
                continue
            Q, _ = np.linalg.qr(nprng.normal(size=(m, m)))
            if kind == "proj":
                ev = np.array([rng.choice([0.0, 1.0]) for _ in range(m)])
            elif kind == "spectrum":
                ev = np.array([rng.choice([0.0, 1.0, 0.5, 0.25, 0.9, 0.999]) for _ in range(m)])
            else:
                ev = np.zeros(m)
            B = (Q * ev) @ Q.T
            blocks.append((B + B.T) / 2)
        n_tot = sum(b.shape[0] for b in blocks)
        M = np.zeros((n_tot, n_tot))
        o = 0
        for b in blocks:
            M[o:o + b.shape[0], o:o + b.shape[0]] = b
            o += b.shape[0]
        p = list(range(n_tot))
        rng.shuffle(p)
        M = M[np.ix_(p, p)]
        hooks = rng.choice([None, {"eig_target": rng.randint(2, 4)}])
        yield {"matrix": M.tolist(), "hooks": hooks}


# ------------------------------------------------------------------ caller-supplied operations (C08 / C10 / C11)
def check_caller_ops(inp) -> list:
    """the caller supplies the space-group operations (documented argument) of the same structure with SOME atoms
    told apart (a two-sublattice / magnetic description: a subgroup with fewer pure translations than spglib finds
    from the species alone). Every order must then live on the SAME translation group: compact output is full output
    at p2s_map for every fitted order, and the fit equals the one for the crystal whose species really differ
    (where spglib itself finds that subgroup)."""
    from symfc import Symfc
    cr = _cr(inp)
    N = len(cr.numbers)
    orders = _orders(inp)
    out = []
    rs = np.random.default_rng(inp.get("data_seed", 0))
    marks = np.array(inp["marks"])
    cr2 = Crystal(cr.name, cr.lattice, cr.positions, cr.numbers + 50 * marks, cr.n_lp_expected, {})
    rots, trans = ph.spg_ops(cr2)
    ops = {"rotations": rots, "translations": trans}
    S = inp["n_snap"]
    d = rs.normal(scale=0.05, size=(S, N, 3))
    f = rs.normal(size=(S, N, 3))
    try:
        full = Symfc(cr.atoms(), displacements=d, forces=f, spacegroup_operations=ops).run(orders=list(orders),
                                                                                          is_compact_fc=False)
        comp = Symfc(cr.atoms(), displacements=d, forces=f, spacegroup_operations=ops).run(orders=list(orders),
                                                                                          is_compact_fc=True)
        ref = Symfc(cr2.atoms(), displacements=d, forces=f).run(orders=list(orders), is_compact_fc=False)
    except np.linalg.LinAlgError:
        return []
    except ValueError as e:
        if "basis" in str(e).lower() or "empty" in str(e).lower():
            return []
        raise
    p2s = np.asarray(comp.p2s_map)
    n_tr = sum(1 for r in rots if np.array_equal(r, np.eye(3, dtype=int)))
    if len(p2s) * n_tr != N:
        out.append(f"p2s_map has {len(p2s)} atoms, the supplied group has {n_tr} pure translations for {N} atoms")
    for o in orders:
        F_, C_, R_ = full.force_constants[o], comp.force_constants[o], ref.force_constants[o]
        if C_.shape != (len(p2s),) + F_.shape[1:]:
            out.append(f"orders {orders}: compact order-{o} output has shape {C_.shape}, p2s_map has {len(p2s)} atoms "
                       f"(caller-supplied operations with {n_tr} pure translations)")
            continue
        sc = max(float(np.abs(F_).max()), 1e-300)
        if float(np.abs(C_ - F_[p2s]).max()) / sc > 1e-9:
            out.append(f"orders {orders}: compact order-{o} output differs from full[p2s_map] (caller-supplied operations)")
        if R_.shape != F_.shape or float(np.abs(R_ - F_).max()) / max(float(np.abs(R_).max()), 1e-300) > 1e-6:
            out.append(f"orders {orders}: order-{o} fit with caller-supplied operations differs from the fit for the crystal "
                       f"whose species differ (same group found by spglib)")
    return out


def gen_caller_ops_inputs(rng, n):
    combos = [[2, 3], [3], [2], [2, 3], [3, 4], [2, 3, 4]]
    for k in range(n):
        od = rng.choice(combos[:4]) if rng.random() < 0.75 else rng.choice(combos[4:])
        mx = 3 if 4 in od else (6 if 3 in od else 8)
        for _ in range(60):
            cr = crystal(rng, max_N=mx, min_nlp=2)
            N = len(cr.numbers)
            marks = [rng.randint(0, 1) for _ in range(N)]
            if 0 < sum(marks) < N:
                sizes = _basis_sizes(cr, od, None)
                if all(v > 0 for v in sizes.values()) and sum(sizes.values()) < 150:
                    break
        else:
            continue
        yield {"crystal": cr, "orders": od, "marks": marks, "n_snap": 3 * (sum(sizes.values()) // (3 * N) + 4) + 20,
               "data_seed": rng.randrange(10 ** 6)}



# ------------------------------------------------------------------ C12 histories on real objects
def check_history(inp) -> list:
    """a sequence of API calls; every successful solve must equal a fresh object's result; caller arrays,
    basis sets untouched"""
    from symfc import Symfc
    cr = _cr(inp)
    N = len(cr.numbers)
    out = []
    rs = np.random.default_rng(inp.get("data_seed", 0))
    S = inp["n_snap"]
    datasets = [(rs.normal(scale=0.05, size=(S, N, 3)), rs.normal(size=(S, N, 3))) for _ in range(2)]
    cutoff = inp.get("cutoff")
    cutd = None if cutoff is None else {int(k): v for k, v in cutoff.items()}
    pristine = [(d.copy(), f.copy()) for d, f in datasets]
    shared = bool(inp.get("shared_arrays"))
    if shared:
        # the caller's arrays go to the constructor (kept by reference) and to a SECOND object; whatever the first object
        # does afterwards (setters with same-shape replacements, solves) must not reach the arrays or the second object
        s = Symfc(cr.atoms(), displacements=datasets[0][0], forces=datasets[0][1],
                  cutoff=None if cutd is None else dict(cutd))
        twin = Symfc(cr.atoms(), displacements=datasets[0][0], forces=datasets[0][1],
                     cutoff=None if cutd is None else dict(cutd))
        cur = 0
    else:
        s = Symfc(cr.atoms(), cutoff=None if cutd is None else dict(cutd))
        twin = None
        cur = None
    fresh_cache = {}

    def arrays_intact():
        for k_, ((d_, f_), (d0_, f0_)) in enumerate(zip(datasets, pristine)):
            if not np.array_equal(d_, d0_) or not np.array_equal(f_, f0_):
                return f"the caller's arrays of dataset {k_} were modified"
        if twin is not None and (not np.array_equal(twin.displacements, pristine[0][0])
                                 or not np.array_equal(twin.forces, pristine[0][1])):
            return "the dataset of a second object built from the same arrays was modified"
        return None

    eff = {}             # order -> cutoff with which the basis set the object currently HOLDS was built

    def fresh(orders, ds, compact):
        key = (tuple(orders), ds, compact, tuple(eff.get(o) for o in orders))
        if key not in fresh_cache:
            d, f = datasets[ds]
            t = Symfc(cr.atoms(), displacements=d.copy(), forces=f.copy(), cutoff=None if cutd is None else dict(cutd))
            # reference basis sets are built one order at a time, directly from the basis-set classes, so that the
            # reference does not depend on how compute_basis_set groups the orders; each with the cutoff of the basis
            # set the object holds (its own, or the giver's after a hand-over)
            t.basis_set = {o: ph.basis_cls(o)(cr.atoms(), cutoff=eff.get(o)).run() for o in orders}
            t.solve(orders=list(orders), is_compact_fc=compact)
            fresh_cache[key] = {o: t.force_constants[o].copy() for o in orders}
        return fresh_cache[key]

    held = {}            # the force constants the object holds after its last successful solve (copies)
    bystander = None

    def stored_results_unchanged(what):
        got = s.force_constants
        if set(got) != set(held):
            return f"{what}: the object's stored orders went from {sorted(held)} to {sorted(got)}"
        for o_ in held:
            if got[o_].shape != held[o_].shape or not np.array_equal(got[o_], held[o_]):
                return f"{what}: the object's stored order-{o_} force constants changed"
        return None

    for op in inp["ops"]:
        kind = op[0]
        try:
            if kind == "bystander":
                # ANOTHER object (own dataset, own basis sets) computes and solves in between: nothing of it may
                # reach this object's results, and a newly created object holds no results
                d_b, f_b = datasets[1 - (cur or 0)]
                if bystander is None:
                    bystander = Symfc(cr.atoms(), displacements=d_b.copy(), forces=f_b.copy(),
                                      cutoff=None if cutd is None else dict(cutd))
                    if bystander.force_constants:
                        out.append(f"a newly created object already holds force constants of orders "
                                   f"{sorted(bystander.force_constants)}")
                bystander.compute_basis_set(orders=op[1])
                if all(bystander.basis_set[o].basis_set.shape[1] > 0 for o in op[1]):
                    bystander.solve(orders=op[1], is_compact_fc=op[2])
                bad = stored_results_unchanged("after another object solved")
                if bad:
                    out.append(bad)
            elif kind == "rejected":
                # a well-formed request for an order whose basis set is missing, or a malformed one: raises, and the
                # results the object holds survive
                missing = [o for o in op[1] if o not in s.basis_set]
                malformed = tuple(sorted(op[1])) not in [(2,), (3,), (4,), (2, 3), (3, 4), (2, 3, 4)]
                if cur is not None and (missing or malformed):
                    try:
                        s.solve(orders=op[1], is_compact_fc=op[2])
                        out.append(f"solve(orders={op[1]}) was accepted although "
                                   + (f"the basis sets of orders {missing} are missing" if missing else "malformed"))
                    except np.linalg.LinAlgError:
                        out.append(f"solve(orders={op[1]}) reached the linear solver")
                    except Exception:
                        pass
                    bad = stored_results_unchanged(f"after the rejected solve(orders={op[1]})")
                    if bad:
                        out.append(bad)
            elif kind == "data":
                cur = op[1]
                d, f = datasets[cur]
                dcopy, fcopy = d.copy(), f.copy()
                s.displacements = d
                s.forces = f
            elif kind == "basis":
                s.compute_basis_set(orders=op[1])
                for o_ in op[1]:
                    eff[o_] = None if cutd is None else cutd.get(o_)
            elif kind == "receive":
                # basis sets of ANOTHER configuration (a genuine cutoff of the giver) are handed over to an object that
                # may already have solved these orders; the next solve must use what the object now holds
                donor = Symfc(cr.atoms(), cutoff={int(k): v for k, v in op[2].items()})
                donor.compute_basis_set(orders=op[1])
                s.basis_set = donor.basis_set
                eff.clear()
                for o_ in donor.basis_set:
                    eff[o_] = op[2].get(str(o_))
            elif kind == "handover":
                t = Symfc(cr.atoms(), cutoff=None if cutd is None else dict(cutd))
                t.basis_set = s.basis_set
                if cur is not None:
                    t.displacements, t.forces = datasets[cur]
                s = t
                held = {}
                if s.force_constants:
                    out.append(f"a newly created object (basis-set hand-over) already holds force constants of orders "
                               f"{sorted(s.force_constants)}")
            elif kind == "foreign":
                # basis sets built by an object with OTHER cutoffs are handed over; the receiver then recomputes
                # the orders it is going to solve (compute_basis_set), which must restore its own configuration
                donor = Symfc(cr.atoms(), cutoff={2: 30.0, 3: 31.0, 4: 32.0})
                donor.compute_basis_set(orders=op[1])
                s.basis_set = donor.basis_set
                eff.clear()
                s.compute_basis_set(orders=op[1])
                for o_ in s.basis_set:
                    eff[o_] = (None if cutd is None else cutd.get(o_)) if o_ in op[1] else {2: 30.0, 3: 31.0, 4: 32.0}[o_]
            elif kind == "solve":
                orders, compact = op[1], op[2]
                if cur is None or any(o not in s.basis_set for o in orders):
                    continue
                if any(s.basis_set[o].basis_set.shape[1] == 0 for o in orders):
                    continue        # empty basis: outside the property's domain
                snap = {o: (b.basis_set.copy(), b.compact_compression_matrix.toarray().copy())
                        for o, b in s.basis_set.items() if o in orders}
                d0, f0 = datasets[cur][0].copy(), datasets[cur][1].copy()
                s.solve(orders=orders, is_compact_fc=compact)
                ref = fresh(orders, cur, compact)
                for o in orders:
                    g = s.force_constants[o]
                    sc = max(float(np.abs(ref[o]).max()), 1e-300)
                    if g.shape != ref[o].shape or float(np.abs(g - ref[o]).max()) / sc > 1e-7:
                        out.append(f"solve {orders} (compact={compact}) after history differs from a fresh object (order {o})")
                for o, (b0, c0) in snap.items():
                    b = s.basis_set[o]
                    if not np.array_equal(b.basis_set, b0) or not np.array_equal(b.compact_compression_matrix.toarray(), c0):
                        out.append(f"solve modified the order-{o} basis set")
                if not np.array_equal(datasets[cur][0], d0) or not np.array_equal(datasets[cur][1], f0):
                    out.append("solve modified the caller's displacement/force arrays")
                for o in orders:
                    held[o] = np.array(s.force_constants[o])
                extra = set(s.force_constants) - set(held)
                if extra:
                    out.append(f"after solve {orders} the object holds orders {sorted(extra)} it never solved")
        except np.linalg.LinAlgError:
            continue
        bad = arrays_intact()
        if bad:
            out.append(f"after {kind}: {bad}")
        if out:
            break
    return out


def gen_history_inputs(rng, n):
    lowsym = ["wurtzite", "tetragonal2", "mono", "hcp"]
    combos = [[2], [3], [2, 3], [4], [3, 4], [2, 3, 4]]
    for k in range(n):
        cr = crystal(rng, max_N=4 if k % 3 else 3, protos=lowsym)
        if k % 4 == 1:
            # "grouping" stream: a genuine cutoff for ONE order only; the orders are then computed together in one
            # compute_basis_set call and solved — the reference builds every order separately
            from . import physics as _ph
            dd = _ph.min_image_distances(cr)
            vals = np.unique(np.round(dd[dd > 1e-6], 6))
            od = rng.choice([[2, 3], [3, 2]] if len(cr.numbers) > 3 else [[2, 3], [3, 4], [2, 3, 4], [3, 2], [4, 3]])
            if len(vals) >= 2:
                i = rng.randrange(1, len(vals))
                cv = float((vals[i - 1] + vals[i]) / 2)
                yield {"crystal": cr, "ops": [("data", 0), ("basis", od), ("solve", sorted(od), rng.random() < 0.5)],
                       "n_snap": 60, "data_seed": rng.randrange(10 ** 6),
                       "cutoff": {str(rng.choice(od)): cv}}
                continue
        ops = [("data", 0)]
        from . import physics as _ph2
        dd_ = _ph2.min_image_distances(cr)
        vals_ = np.unique(np.round(dd_[dd_ > 1e-6], 6))
        recv_cut = float((vals_[-2] + vals_[-1]) / 2) if len(vals_) >= 2 else None      # drops the farthest shell only
        for _ in range(rng.randint(4, 7)):
            r = rng.random()
            if r < 0.25:
                ops.append(("basis", rng.choice(combos[:3] if len(cr.numbers) > 3 else combos)))
            elif r < 0.4:
                ops.append(("data", rng.randint(0, 1)))
            elif r < 0.47:
                ops.append(("handover",))
            elif r < 0.53:
                ops.append(("bystander", rng.choice(combos[:3]), rng.random() < 0.5))
            elif r < 0.60 and recv_cut is not None:
                od = rng.choice(combos[:3] if len(cr.numbers) > 3 else combos)
                ops.append(("receive", od, {str(o): recv_cut for o in od}))
                ops.append(("solve", od, rng.random() < 0.5))
            elif r < 0.64:
                ops.append(("rejected", rng.choice([[2, 3], [3], [3, 4], [2, 3, 4], [4], [2, 4], [2, 2]]), rng.random() < 0.5))
            elif r < 0.72:
                od = rng.choice(combos[:3] if len(cr.numbers) > 3 else combos)
                ops.append(("foreign", od))
                ops.append(("solve", od, rng.random() < 0.5))
            else:
                ops.append(("solve", rng.choice(combos[:3] if len(cr.numbers) > 3 else combos), rng.random() < 0.5))
        inp = {"crystal": cr, "ops": ops, "n_snap": 60, "data_seed": rng.randrange(10 ** 6),
               "shared_arrays": k % 2 == 0}
        if rng.random() < 0.5:
            # a cutoff for SOME orders only (beyond every distance, so the admissible space is unchanged but the
            # cutoff code path is taken for that order and must not leak into the others)
            # a genuine cutoff (between two neighbour shells) for SOME orders only: it must not leak into the others
            from . import physics as _ph
            dd = _ph.min_image_distances(cr)
            vals = np.unique(np.round(dd[dd > 1e-6], 6))
            if len(vals) >= 2:
                i = rng.randrange(max(1, len(vals) // 2), len(vals))
                cv = float((vals[i - 1] + vals[i]) / 2)
                inp["cutoff"] = {str(o): cv for o in rng.sample([2, 3, 4], rng.randint(1, 2))}
        yield inp


_FRESH_SCRIPT = r"""
import sys, json
import numpy as np
inp = json.load(sys.stdin)
from symfc.utils.utils import SymfcAtoms
import symfc.basis_sets as BS
cls = {2: BS.FCBasisSetO2, 3: BS.FCBasisSetO3, 4: BS.FCBasisSetO4}[inp["order"]]
at = SymfcAtoms(cell=np.array(inp["lattice"]), scaled_positions=np.array(inp["positions"]), numbers=np.array(inp["numbers"]))
bs = cls(at, cutoff=inp["cutoff"]).run()
B = bs.basis_set
F = bs.compression_matrix @ B
R = np.random.default_rng(inp["rseed"]).normal(size=(F.shape[0], 2))
print(json.dumps({"nb": int(B.shape[1]), "proj": (F @ (F.T @ R)).tolist()}))
"""


def _fresh_process_basis(cr, order, cutoff, rseed):
    """the same basis computed in a NEW interpreter (no history at all); returns (n_basis, P R) for a fixed random R"""
    import subprocess
    import sys
    payload = {"order": order, "cutoff": cutoff, "rseed": rseed, "lattice": cr.lattice.tolist(),
               "positions": cr.positions.tolist(), "numbers": cr.numbers.tolist()}
    env = dict(os.environ)
    env.pop("SYMFC_VERIF", None)
    p = subprocess.run([sys.executable, "-c", _FRESH_SCRIPT], input=json.dumps(payload), capture_output=True,
                       text=True, env=env, timeout=600)
    if p.returncode != 0:
        raise RuntimeError("fresh-process reference failed: " + p.stderr[-300:])
    j = json.loads(p.stdout.strip().splitlines()[-1])
    return j["nb"], np.array(j["proj"])


def check_process_history(inp) -> list:
    """C12 at the level of the PROCESS and of basis-set OBJECTS: after an arbitrary prelude of other computations in the
    same interpreter (same supercell with another geometry / other cutoff / operations supplied by the caller that
    form a subgroup / re-ordered atoms / the same object run twice) the basis computed for the target must span the
    same space as the one a fresh interpreter computes"""
    cr = _cr(inp)
    order = int(inp["order"])
    cutoff = inp.get("cutoff")
    rseed = int(inp.get("rseed", 0))
    out = []
    cls = ph.basis_cls(order)
    rs = np.random.default_rng(rseed + 1)
    for step in inp["prelude"]:
        kind = step[0]
        try:
            if kind == "scaled":
                cr2 = Crystal(cr.name, cr.lattice * float(step[1]), cr.positions, cr.numbers, cr.n_lp_expected, {})
                cls(cr2.atoms(), cutoff=cutoff).run()
            elif kind == "subgroup_ops":
                rots, trans = ph.spg_ops(cr)
                keep = [i for i in range(len(rots)) if np.array_equal(rots[i], np.eye(3, dtype=int))]
                keep.sort(key=lambda i: (not np.allclose(trans[i], 0),))
                cls(cr.atoms(), cutoff=cutoff,
                    spacegroup_operations={"rotations": rots[keep], "translations": trans[keep]}).run()
            elif kind == "other_cutoff":
                cls(cr.atoms(), cutoff=float(step[1])).run()
            elif kind == "permuted":
                p = rs.permutation(len(cr.numbers))
                cr2 = Crystal(cr.name, cr.lattice, cr.positions[p], cr.numbers[p], cr.n_lp_expected, {})
                cls(cr2.atoms(), cutoff=cutoff).run()
        except ValueError:
            pass            # an empty basis in the prelude is of no interest here
    obj = cls(cr.atoms(), cutoff=cutoff)
    try:
        bs = obj.run()
        if any(st[0] == "rerun" for st in inp["prelude"]):
            bs = obj.run()
        nb = bs.basis_set.shape[1]
        F = bs.compression_matrix @ bs.basis_set
    except ValueError as e:
        nb, F = 0, None
        err = str(e)
    nb_ref, PR = _fresh_process_basis(cr, order, cutoff, rseed)
    if nb != nb_ref:
        return [f"order {order}: {nb} basis vectors after the prelude {[s[0] for s in inp['prelude']]}, "
                f"{nb_ref} in a fresh interpreter"]
    if nb:
        R = np.random.default_rng(rseed).normal(size=(F.shape[0], 2))
        dev = float(np.abs(F @ (F.T @ R) - PR).max()) / max(float(np.abs(PR).max()), 1e-300)
        if dev > 1e-7:
            out.append(f"order {order}: basis after the prelude {[s[0] for s in inp['prelude']]} spans another space "
                       f"than in a fresh interpreter (dev {dev:.2e})")
    return out


def gen_process_history_inputs(rng, n):
    for k in range(n):
        order = (2, 3, 2, 2, 3)[k % 5]
        cr = crystal(rng, max_N=(8, 4)[order - 2], min_nlp=2 if k % 2 == 0 else 1)
        dd = ph.min_image_distances(cr)
        vals = np.unique(np.round(dd[dd > 1e-6], 6))
        cutoff = None
        if len(vals) >= 2 and rng.random() < 0.75:
            i = rng.randrange(1, len(vals))
            cutoff = float((vals[i - 1] + vals[i]) / 2)
        kinds = []
        for _ in range(rng.randint(1, 3)):
            r = rng.random()
            if r < 0.25:
                kinds.append(("scaled", rng.choice([1.12, 1.25, 1.4])))      # larger cell first: fewer pairs in range
            elif r < 0.45:
                kinds.append(("subgroup_ops",))
            elif r < 0.6 and len(vals) >= 2:
                kinds.append(("other_cutoff", float(vals[0] * 0.9 + 0.05)))
            elif r < 0.72:
                kinds.append(("permuted",))
            else:
                kinds.append(("rerun",))
        yield {"crystal": cr, "order": order, "orders": [order], "cutoff": cutoff, "prelude": kinds,
               "rseed": rng.randrange(10 ** 6)}


def check_large_cell(inp) -> list:
    """C01 / C03 where the flat tensor index exceeds 16 bits (>= 41 atoms at order 3 without a cutoff): a random
    combination of the basis vectors, expanded to the full tensor, is symmetric under every index transposition and
    obeys the sum rule on every index. (No dense reference at this size: only self-consistency is checked.)"""
    cr = _cr(inp)
    order = int(inp["order"])
    N = len(cr.numbers)
    bs = ph.basis_cls(order)(cr.atoms()).run()
    nb = bs.basis_set.shape[1]
    if nb == 0:
        return []
    out = []
    coef = np.random.default_rng(inp.get("seed", 0)).normal(size=nb)
    T = ph.expand(bs, coef, N, order)
    sc = max(float(np.abs(T).max()), 1e-300)
    a = ph.perm_asymmetry(T, order) / sc
    if a > 1e-7:
        out.append(f"order {order}, {N} atoms: expanded basis combination is not symmetric under index permutations "
                   f"(rel. {a:.2e}); {nb} basis vectors")
    for ax in range(order):
        sr = float(np.abs(T.sum(axis=ax)).max()) / sc
        if sr > 1e-6:
            out.append(f"order {order}, {N} atoms: sum rule on index {ax} violated ({sr:.2e})")
            break
    return out


def gen_large_cell_inputs(rng, n):
    """supercells of a polar two-atom tetragonal cell with 41..48 atoms (few point operations, so that a damaged part
    of the permutation stage is not projected out by symmetry)"""
    for k in range(n):
        dims = rng.choice([(7, 3, 1), (3, 7, 1), (1, 7, 3), (4, 3, 2), (11, 2, 1)])
        zc = rng.choice([0.43, 0.37, 0.29])
        L, B, Z = [[3.0, 0, 0], [0, 3.0, 0], [0, 0, 4.1]], [[0, 0, 0], [0.5, 0.5, zc]], [31, 33]
        M = np.diag(dims)
        cr = build_supercell("polar_tet", np.array(L, dtype=float), np.array(B, dtype=float), np.array(Z), M, rng=rng,
                             shuffle=rng.random() < 0.5, shift=None)
        yield {"crystal": cr, "order": 3, "orders": [3], "seed": rng.randrange(10 ** 6)}


def check_solver_reuse(inp) -> list:
    """a solver OBJECT used for several datasets in a row (solve, read, solve, read ...): after every solve its
    accessors must return what a fresh solver object returns for that dataset alone, in both layouts, whatever was
    read before; reading twice gives the same arrays; the basis sets are untouched"""
    import symfc.solvers as S
    cr = _cr(inp)
    orders = tuple(inp["orders"])
    N = len(cr.numbers)
    rs = np.random.default_rng(inp.get("data_seed", 0))
    bsets = [ph.get_basis(cr, o) for o in orders]
    if any(b.basis_set.shape[1] == 0 for b in bsets):
        return []
    cls = getattr(S, "FCSolver" + "".join(f"O{o}" for o in orders))
    arg = bsets[0] if len(orders) == 1 else list(bsets)
    nsnap = inp["n_snap"]
    datasets = [(rs.normal(scale=0.05, size=(nsnap, N, 3)), rs.normal(size=(nsnap, N, 3))) for _ in range(3)]
    out = []

    def read(sol, layout):
        v = sol.full_fc if layout == "full" else sol.compact_fc
        v = v if isinstance(v, (tuple, list)) else (v,)
        return [np.array(x) for x in v]

    snap = [(b.basis_set.copy(), b.compact_compression_matrix.toarray().copy()) for b in bsets]
    sol = cls(arg)
    for step, ds in enumerate(inp["sequence"]):
        d, f = datasets[ds]
        # the solver classes used DIRECTLY take a snapshot batch size (the API forwards it only to the multi-order
        # solvers): the re-used object gets one, the fresh reference the default
        bsz = (inp.get("batch_sizes") or [None] * (step + 1))[step]
        if bsz is None:
            sol.solve(d.copy(), f.copy())
        else:
            sol.solve(d.copy(), f.copy(), batch_size=int(bsz))
        fresh = cls(arg).solve(d.copy(), f.copy())
        for layout in inp["reads"][step]:
            got = read(sol, layout)
            ref = read(fresh, layout)
            again = read(sol, layout)
            for o, g, r, a in zip(orders, got, ref, again):
                sc = max(float(np.abs(r).max()), 1e-300)
                if g.shape != r.shape or float(np.abs(g - r).max()) / sc > 1e-7:
                    out.append(f"solver {orders}: {layout} force constants of order {o} after solve #{step + 1} "
                               f"(dataset {ds}, batch_size {bsz}) differ from a fresh solver object with the default "
                               f"batch size")
                elif not np.array_equal(g, a):
                    out.append(f"solver {orders}: reading {layout} twice gives different arrays (order {o})")
        if out:
            break
    for b, (b0, c0) in zip(bsets, snap):
        if not np.array_equal(b.basis_set, b0) or not np.array_equal(b.compact_compression_matrix.toarray(), c0):
            out.append(f"solver {orders}: a basis set was modified")
    return out


def gen_solver_reuse_inputs(rng, n):
    combos = [[2], [3], [2, 3], [4], [3, 4], [2, 3, 4]]
    lowsym = ["wurtzite", "tetragonal2", "mono", "hcp"]
    for k in range(n):
        od = combos[k % 6]
        cr = crystal(rng, max_N=3 if 4 in od else 4, protos=lowsym)
        L = rng.randint(2, 3)
        yield {"crystal": cr, "orders": od, "n_snap": 60, "data_seed": rng.randrange(10 ** 6),
               "sequence": [rng.randint(0, 2) for _ in range(L)],
               "batch_sizes": [rng.choice([None, 1, 2, 3, 4, 5, 7, 13, 59, 61]) for _ in range(L)],
               "reads": [rng.choice([["full"], ["compact"], ["full", "compact"], ["compact", "full"]]) for _ in range(L)]}


def check_basis_o1(inp) -> list:
    """the exported 1st-order basis (FCBasisSetO1): orthonormal, invariant under every operation, obeys the sum rule,
    spans the whole admissible space"""
    from symfc.basis_sets import FCBasisSetO1
    cr = _cr(inp)
    N = len(cr.numbers)
    out = []
    cr_sym = cr
    if inp.get("marks") is not None:
        # the caller supplies the operations of a two-sublattice description (a subgroup, possibly with fewer pure
        # translations than spglib finds from the species): the admissible space is the one of that subgroup
        cr_sym = Crystal(cr.name, cr.lattice, cr.positions, cr.numbers + 50 * np.array(inp["marks"]), cr.n_lp_expected, {})
    dim, W = ph.reference_dimension(cr_sym, 1)
    # the order-1 sum-rule complement, uncompressed, is the model's matrix (O1.sumRuleO1): Tᵀ T = (1/N) 1_{NxN} ⊗ I_3
    from scipy.sparse import identity as _sid
    from symfc.utils.matrix_tools_O1 import _compressed_complement_projector_sum_rules
    pc = _compressed_complement_projector_sum_rules(_sid(3 * N, format="csr"), N)
    pc = pc.toarray() if hasattr(pc, "toarray") else np.asarray(pc)
    if float(np.abs(pc - np.kron(np.ones((N, N)) / N, np.eye(3))).max()) > 1e-12:
        out.append("order 1: sum-rule complement is not (1/N) 1 (x) I_3")
    ops = _explicit_ops(cr, inp["explicit_ops"]) if inp.get("explicit_ops") is not None else None
    if inp.get("marks") is not None:
        r_, t_ = ph.spg_ops(cr_sym)
        ops = {"rotations": r_, "translations": t_}
    try:
        bs = FCBasisSetO1(cr.atoms(), spacegroup_operations=ops).run()
    except ValueError as e:
        if "No basis vectors exist" in str(e):
            return [] if dim == 0 else [f"order 1: 'No basis vectors exist' but the admissible space has dimension {dim}"]
        raise
    F = bs.full_basis_set
    F = F.toarray() if hasattr(F, "toarray") else np.asarray(F)
    nb = F.shape[1]
    if nb != dim:
        out.append(f"order 1: {nb} basis vectors, admissible space has dimension {dim}")
    if nb == 0:
        return out
    e = float(np.abs(F.T @ F - np.eye(nb)).max())
    if e > 1e-8:
        out.append(f"order 1: expanded basis not orthonormal ({e:.2e})")
    if dim == nb:
        dev = float(np.abs(W @ (W.T @ F) - F).max())
        if dev > 1e-7:
            out.append(f"order 1: basis spans a different space than the admissible one (dev {dev:.2e})")
    T = (F @ _rand_coef(3, nb)).reshape(N, 3)
    sc = max(float(np.abs(T).max()), 1e-300)
    if float(np.abs(T.sum(axis=0)).max()) / sc > 1e-7:
        out.append("order 1: sum over atoms is not zero")
    rots, trans = ph.spg_ops(cr_sym)
    for r, t in zip(rots, trans):
        p = ph.atom_perm_of_op(cr_sym, r, t)
        if p is None:
            break
        d = float(np.abs(ph.apply_op(T, 1, p, ph.cart_rotation(cr, r)) - T).max()) / sc
        if d > 1e-7:
            out.append(f"order 1: not invariant under an operation (dev {d:.2e})")
            break
    return out


def check_ortho_after_fit(inp) -> list:
    """C09 / C12: orthonormality of basis set, compression matrix and their product must also hold AFTER the basis
    sets have been used by a solver (solving must not modify a basis set)"""
    from symfc import Symfc
    cr = _cr(inp)
    N = len(cr.numbers)
    orders = _orders(inp)
    out = []
    s = Symfc(cr.atoms())
    s.compute_basis_set(orders=orders)
    if any(s.basis_set[o].basis_set.shape[1] == 0 for o in orders):
        return []

    def dev(tag):
        for o in orders:
            b = s.basis_set[o]
            B = b.basis_set
            nb = B.shape[1]
            cm = b.compression_matrix
            G = B.T @ ((cm.T @ cm).toarray()) @ B
            e = float(np.abs(G - np.eye(nb)).max())
            if e > 1e-8:
                out.append(f"order {o}: expanded basis not orthonormal {tag} (max dev {e:.2e})")
            cc = b.compact_compression_matrix
            n_lp = b.translation_permutations.shape[0]
            e2 = float(np.abs((cc.T @ cc).toarray() * n_lp - (cm.T @ cm).toarray()).max())
            if e2 > 1e-8:
                out.append(f"order {o}: compact and full compression matrices disagree {tag} ({e2:.2e})")
    dev("before any fit")
    if out:
        return out
    rs = np.random.default_rng(inp.get("data_seed", 0))
    nb = sum(s.basis_set[o].basis_set.shape[1] for o in orders)
    S = int(np.ceil(3.0 * nb / (3 * N))) + 4
    s.displacements = rs.normal(scale=0.05, size=(S, N, 3))
    s.forces = rs.normal(size=(S, N, 3))
    try:
        s.solve(orders=orders, is_compact_fc=bool(inp.get("compact", False)))
    except np.linalg.LinAlgError:
        return []
    dev(f"after solve{tuple(orders)}")
    return out


def check_api_invalid(inp) -> list:
    """C16 stated directly on the real object: after a valid solve, every invalid request must raise and leave
    force_constants untouched; valid requests write exactly the requested orders with the documented shapes"""
    from symfc import Symfc
    cr = _cr(inp)
    N = len(cr.numbers)
    out = []
    rs = np.random.default_rng(inp.get("data_seed", 0))
    S = inp["n_snap"]
    d = rs.normal(scale=0.05, size=(S, N, 3))
    f = rs.normal(size=(S, N, 3))
    s = Symfc(cr.atoms(), displacements=d, forces=f)
    try:
        s.run(orders=[2])
        if inp.get("all_orders"):
            # the object ALSO holds basis sets of orders 3 and 4 (computed, not solved): a malformed request must
            # not fall through to a branch that happens to find everything it needs
            s.compute_basis_set(orders=[3, 4])
    except np.linalg.LinAlgError:
        return []
    ref = {k: v.copy() for k, v in s.force_constants.items()}
    ids = {k: id(v) for k, v in s.force_constants.items()}
    supported = [(2,), (3,), (4,), (2, 3), (3, 4), (2, 3, 4)]
    for spec in inp["specs"]:
        mo, od = spec
        if mo is not None:
            valid = mo in (2, 3, 4)
        elif od is None:
            valid = False
        else:
            valid = tuple(sorted(od)) in supported
        if valid:
            continue
        for call in ("solve", "run", "compute_basis_set"):
            if inp.get("all_orders") and call != "solve":
                continue            # (re-computing order-4 basis sets for every malformed request would be slow)
            try:
                getattr(s, call)(max_order=mo, orders=od)
                out.append(f"{call}(max_order={mo}, orders={od}) was accepted")
            except np.linalg.LinAlgError:
                out.append(f"{call}(max_order={mo}, orders={od}) reached the linear solver")
            except Exception:
                pass
            if set(s.force_constants) != set(ref) or any(id(s.force_constants[k]) != ids[k] or
                                                          not np.array_equal(s.force_constants[k], ref[k]) for k in ref):
                out.append(f"{call}(max_order={mo}, orders={od}) changed the stored force constants")
                return out
    # well-formed requests for orders whose basis set is missing (the object holds order 2 only): raise before
    # anything is produced, the earlier results survive
    if not inp.get("all_orders"):
        for kw in ({"orders": [2, 3]}, {"max_order": 3}, {"orders": [3]}, {"orders": [3, 4]}, {"max_order": 4},
                   {"orders": [4]}, {"orders": [3, 2]}):
            try:
                s.solve(**kw)
                out.append(f"solve({kw}) was accepted without the basis sets it needs")
            except np.linalg.LinAlgError:
                out.append(f"solve({kw}) reached the linear solver without the basis sets it needs")
            except Exception:
                pass
            if set(s.force_constants) != set(ref) or any(id(s.force_constants[k]) != ids[k] or
                                                          not np.array_equal(s.force_constants[k], ref[k]) for k in ref):
                out.append(f"the rejected solve({kw}) (missing basis set) changed the stored force constants: orders "
                           f"{sorted(ref)} -> {sorted(s.force_constants)}")
                return out
    # shape mismatches
    for bad in inp.get("bad_shapes", []):
        if tuple(bad) == d.shape:
            continue            # e.g. (S, 3, N) for a three-atom cell IS the valid shape
        t = Symfc(cr.atoms(), displacements=d, forces=f)
        t.compute_basis_set(orders=[2])
        t.solve(orders=[2])
        keep = {k: v.copy() for k, v in t.force_constants.items()}
        t.forces = rs.normal(size=tuple(bad))
        try:
            t.solve(orders=[2])
            out.append(f"solve accepted forces of shape {bad} for displacements {d.shape}")
        except Exception:
            pass
        if any(not np.array_equal(t.force_constants[k], keep[k]) for k in keep):
            out.append(f"a rejected solve (forces shape {bad}) altered stored force constants")
    return out


CHECKS = {
    "basis_invariants": check_basis_invariants,
    "completeness": check_completeness,
    "recovery": check_recovery,
    "recovery_reference": check_recovery_reference,
    "normal_equations": check_normal_equations,
    "fit_relations": check_fit_relations,
    "cutoff": check_cutoff,
    "description": check_description,
    "paths": check_paths,
    "sg_perms": check_sg_perms,
    "eig": check_eig,
    "history": check_history,
    "ortho_after_fit": check_ortho_after_fit,
    "basis_o1": check_basis_o1,
    "api_invalid": check_api_invalid,
    "solver_reuse": check_solver_reuse,
    "process_history": check_process_history,
    "large_cell": check_large_cell,
    "caller_ops": check_caller_ops,
    "solver_full_compact": check_solver_full_compact,
}


def run_oracle(name, inputs, which=None, known=None, nontrivial=lambda inp: True) -> Result:
    """run `CHECKS[name]` on each input; failures carry the JSON input for replay"""
    from .common import jsonable
    res = Result(name, "oracle")
    fn = CHECKS[name]
    with Timer(res):
        for inp in inputs:
            cr = inp.get("crystal")
            desc = cr.describe() if isinstance(cr, Crystal) else None
            jinp = {k: (v.to_json() if isinstance(v, Crystal) else jsonable(v)) for k, v in inp.items()}
            try:
                fails = fn(inp, which) if which is not None else fn(inp)
            except AssertionError as e:
                res.count("harness_assertion")
                fails = []
            except np.linalg.LinAlgError:
                res.count("singular_fit_skipped")
                fails = []
            except Exception as e:  # noqa
                import traceback as _tb
                # who raised? walk the traceback from the innermost frame outwards: the first frame that belongs to
                # symfc means the LIBRARY raised on an input of the property's domain (the unchanged tree does not);
                # if a harness frame comes first it is a defect of this harness -> internal error, never a violation
                owner = "harness"
                for fr in reversed(_tb.extract_tb(e.__traceback__)):
                    fn_ = fr.filename.replace("\\", "/")
                    if "/symfc/" in fn_:
                        owner = "library"
                        break
                    if "/harness/" in fn_:
                        owner = "harness"
                        break
                if owner == "harness":
                    raise
                fails = [{"msg": f"library raised {type(e).__name__}: {str(e)[:120]}", "trace": _tb.format_exc()[-1200:]}]
            res.case(jinp, nontrivial(inp), sample={"crystal": desc, **{k: jsonable(v) for k, v in inp.items()
                                                                         if k not in ("crystal", "matrix")}})
            if desc:
                res.count(f"N{desc['N']}")
                res.count(f"nlp{desc['n_lp']}")
                res.count(f"proto_{desc['name']}")
            for o in inp.get("orders", []):
                res.count(f"order{o}")
            for f in fails:
                res.fail(f if isinstance(f, str) else f["msg"], oracle=name, input=jinp,
                         detail=None if isinstance(f, str) else jsonable(f))
    return res
