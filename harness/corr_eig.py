"""Correspondence: structural part of eig_tools.py vs Model/Eig.lean
(compression by empty columns, block finding, duplicate-block dictionary, 1x1 rule, column placement,
rank short-cuts, block-divided bookkeeping). The dense eigen-solve is recorded, not modelled."""
from __future__ import annotations

import numpy as np
import scipy.sparse as sp

from .common import Hooks, Result, Timer

DEN = 12


def random_block_matrix(rng, max_blocks=6, allow_nonproj=True):
    """integer matrix M (entries k meaning k/12) that is block diagonal up to a random permutation, built from
    projector blocks J_n/n, I - J_n/n, identity/zero 1x1 blocks, optional non-projector 1x1 values, zero rows"""
    blocks = []
    nb = rng.randint(1, max_blocks)
    palette = []
    for n in (2, 3, 4):
        J = np.full((n, n), DEN // n, dtype=int)
        palette.append(J)
        palette.append(DEN * np.eye(n, dtype=int) - J)
    for _ in range(nb):
        r = rng.random()
        if r < 0.45:
            blocks.append(rng.choice(palette).copy())
        elif r < 0.6:
            blocks.append(np.array([[DEN]]))
        elif r < 0.75:
            blocks.append(np.array([[0]]))
        elif r < 0.85 and allow_nonproj:
            blocks.append(np.array([[rng.choice([3, 6, 9])]]))      # 1/4, 1/2, 3/4
        else:
            # repeat an earlier block (duplicate key)
            blocks.append((rng.choice(blocks) if blocks else palette[0]).copy())
    n = sum(b.shape[0] for b in blocks)
    M = np.zeros((n, n), dtype=int)
    o = 0
    for b in blocks:
        k = b.shape[0]
        M[o:o + k, o:o + k] = b
        o += k
    perm = list(range(n))
    rng.shuffle(perm)
    M = M[np.ix_(perm, perm)]
    return M


def corr_eigsh_projector(rng, drv, n_cases=40) -> Result:
    import symfc.utils.eig_tools as et
    res = Result("eigsh_projector_structure", "correspondence")
    with Timer(res):
        for k in range(n_cases):
            M = random_block_matrix(rng)
            n = M.shape[0]
            P = sp.csr_array(M / DEN)
            calls = []
            orig = et.eigh_projector

            def wrapped(p, return_complement=False, verbose=True):
                out = orig(p, return_complement=return_complement, verbose=verbose)
                calls.append(None if out is None else np.array(out, copy=True))
                return out

            et.eigh_projector = wrapped
            try:
                c_p = et.eigsh_projector(P, verbose=False)
            finally:
                et.eigh_projector = orig
            dense = c_p.toarray()
            plan = drv.ask({"op": "eig_plan", "m": M.tolist(), "den": DEN})
            ents = plan["entries"]
            n_solve = sum(1 for e in ents if e["kind"] == "solve")
            res.case(M.tolist(), n >= 3, sample={"matrix_times_12": M.tolist()})
            res.count("blocks", len(plan["blocks"]))
            res.count("dup_blocks", sum(len(e["labels"]) - 1 for e in ents if e["kind"] == "solve"))
            res.count("one_entries", sum(len(e["labels"]) for e in ents if e["kind"] == "one"))
            res.count("empty_cols", n - len(plan["cols"]))
            if n_solve != len(calls):
                res.fail("number of dense eigen-solves differs (duplicate-block dictionary / block finding)",
                         matrix=M.tolist(), impl=len(calls), model=n_solve)
                continue
            vecs, ncols, ci = [], [], 0
            for e in ents:
                if e["kind"] == "one":
                    vecs.append(np.array([[1.0]]))
                    ncols.append(1)
                else:
                    v = calls[ci]
                    ci += 1
                    vecs.append(v)
                    ncols.append(0 if v is None else v.shape[1])
            pl = drv.ask({"op": "eig_placement", "blocks": plan["blocks"], "entries": ents, "ncols": ncols})
            exp = np.zeros((n, pl["ncol"]))
            for row, col, ei, r, c in pl["entries"]:
                exp[plan["cols"][row], col] = vecs[ei][r, c]
            if exp.shape != dense.shape or not np.array_equal(exp, dense):
                res.fail("eigenvector placement differs", matrix=M.tolist(), impl_shape=list(dense.shape),
                         model_shape=list(exp.shape))
    return res


def corr_sumrule_plan(rng, drv, n_cases=30) -> Result:
    """eigsh_projector_sumrule_stable: which blocks are solved (round(trace) > 0, half-even rounding),
    block order and placement; block-divided solver bookkeeping with a forced tiny target size."""
    import symfc.utils.eig_tools as et
    res = Result("sumrule_eig_structure", "correspondence")
    with Timer(res):
        for t in range(0, 40):
            for den in (2, 4, 7):
                a = round(t / den)
                b = drv.ask({"op": "round_half_even", "t": t, "den": den})
                if a != b:
                    res.fail("round half even differs from Python round", t=t, den=den, impl=a, model=b)
        for k in range(n_cases):
            M = random_block_matrix(rng, allow_nonproj=True)
            n = M.shape[0]
            P = sp.csr_array(M / DEN)
            calls = []
            orig = et.eigh_projector

            def wrapped(p, return_complement=False, verbose=True):
                out = orig(p, return_complement=return_complement, verbose=verbose)
                calls.append((p.shape[0], out))
                return out

            et.eigh_projector = wrapped
            try:
                ev = et.eigsh_projector_sumrule_stable(P, verbose=False)
            finally:
                et.eigh_projector = orig
            plan = drv.ask({"op": "sumrule_plan", "m": M.tolist(), "den": DEN})
            res.case(M.tolist(), n >= 3, sample={"matrix_times_12": M.tolist()})
            solved_sizes = [len(b) for b, s in zip(plan["blocks"], plan["solved"]) if s]
            if solved_sizes != [c[0] for c in calls]:
                res.fail("sum-rule eigen path: solved blocks differ (block order or rank short-cut)",
                         matrix=M.tolist(), impl=[c[0] for c in calls], model=solved_sizes)
                continue
            exp = np.zeros((n, n))
            col = 0
            ci = 0
            for b, s in zip(plan["blocks"], plan["solved"]):
                if s:
                    v = calls[ci][1]
                    ci += 1
                    exp[np.ix_(b, range(col, col + v.shape[1]))] = v
                    col += v.shape[1]
            if not np.array_equal(exp[:, :col], ev):
                res.fail("sum-rule eigen path: placement differs", matrix=M.tolist())
            res.count("blocks", len(plan["blocks"]))
            res.count("skipped_rank0", sum(1 for s in plan["solved"] if not s))
        # block-divided bookkeeping on dense projectors with a forced small target size
        for k in range(max(4, n_cases // 3)):
            n = rng.randint(6, 14)
            rank = rng.randint(1, max(1, n // 2))
            nprng = np.random.default_rng(rng.getrandbits(32))
            Q, _ = np.linalg.qr(nprng.normal(size=(n, rank)))
            if rng.random() < 0.5:
                # concentrate the projector on the first coordinates so that later sub-blocks have trace < 0.5
                Q2 = np.zeros((n, rank))
                m = rng.randint(rank, n)
                Qs, _ = np.linalg.qr(nprng.normal(size=(m, rank)))
                Q2[:m] = Qs
                Q = Q2
            P = Q @ Q.T
            target = rng.randint(2, 5)
            calls = []
            orig = et.eigh_projector

            def wrapped(p, return_complement=False, verbose=True):
                out = orig(p, return_complement=return_complement, verbose=verbose)
                calls.append((p.shape[0], return_complement, out))
                return out

            et.eigh_projector = wrapped
            try:
                with Hooks(eig_target=target):
                    try:
                        ev = et._block_eigh_projector(P.copy(), verbose=False)
                        crashed = None
                    except Exception as e:  # noqa
                        ev, crashed = None, type(e).__name__
            finally:
                et.eigh_projector = orig
            sizes = [min(target, n - b) for b in range(0, n, target)]
            traces = [float(np.trace(P[b:b + target, b:b + target])) for b in range(0, n, target)]
            solved = [int(round(t)) > 0 for t in traces]
            sub_calls = [c for c in calls if c[1]]
            found = []
            ci = 0
            for sv in solved:
                if sv:
                    found.append(sub_calls[ci][2][0].shape[1])
                    ci += 1
                else:
                    found.append(0)
            bk = drv.ask({"op": "block_bookkeeping", "sizes": sizes, "solved": [int(s) for s in solved], "found": found})
            res.case([P.round(6).tolist(), target], True,
                     sample={"n": n, "rank": rank, "target": target, "sub_traces": [round(t, 3) for t in traces]})
            res.count("block_divided_cases")
            res.count("block_divided_with_skipped", int(not all(solved)))
            rem_calls = [c for c in calls if not c[1]]
            if crashed:
                res.fail("_block_eigh_projector crashed", error=crashed, n=n, rank=rank, target=target)
                continue
            if rem_calls:
                if rem_calls[0][0] != bk[1]:
                    res.fail("block-divided solver: size of the complement problem differs from the bookkeeping model",
                             impl=rem_calls[0][0], model=bk[1], sizes=sizes, solved=solved, found=found)
            ncol = 0 if ev is None else ev.shape[1]
            if ncol != rank:
                res.fail("block-divided solver lost or invented unit eigenvectors", n=n, rank=rank, target=target,
                         got=ncol, sub_traces=traces, P=P.tolist())
            if bk[0] + bk[1] != n:
                res.fail("bookkeeping: eigenvector + complement columns do not add up to the block size",
                         bk=bk, n=n)
    return res
