"""Shared result type and helpers for correspondence checks and oracles."""
from __future__ import annotations

import hashlib
import json
import os
import time
from dataclasses import dataclass, field

import numpy as np


@dataclass
class Result:
    name: str
    kind: str                      # "correspondence" | "oracle" | "contract"
    evaluations: int = 0
    nontrivial_keys: set = field(default_factory=set)
    failures: list = field(default_factory=list)     # dicts: {what, input, expected, got, ...}
    samples: list = field(default_factory=list)
    counters: dict = field(default_factory=dict)
    wall_s: float = 0.0
    skipped: str | None = None

    def count(self, key, n=1):
        self.counters[key] = self.counters.get(key, 0) + n

    def case(self, key_obj, nontrivial: bool, sample=None):
        self.evaluations += 1
        if nontrivial:
            self.nontrivial_keys.add(hashlib.sha1(json.dumps(key_obj, sort_keys=True, default=str).encode()).hexdigest())
        if sample is not None and len(self.samples) < 3:
            self.samples.append(sample)

    def fail(self, what: str, **kw):
        if len(self.failures) < 20:
            self.failures.append({"what": what, **kw})
        else:
            self.count("failures_not_recorded")

    @property
    def distinct_nontrivial(self):
        return len(self.nontrivial_keys)

    def summary(self):
        return {"name": self.name, "kind": self.kind, "evaluations": self.evaluations,
                "distinct_nontrivial": self.distinct_nontrivial, "failures": len(self.failures),
                "counters": self.counters, "wall_s": round(self.wall_s, 2), "skipped": self.skipped}


class Timer:
    def __init__(self, res: Result):
        self.res = res

    def __enter__(self):
        self.t = time.time()
        return self

    def __exit__(self, *a):
        self.res.wall_s += time.time() - self.t


def jsonable(x):
    if isinstance(x, np.ndarray):
        return x.tolist()
    if isinstance(x, (np.integer,)):
        return int(x)
    if isinstance(x, (np.floating,)):
        return float(x)
    if isinstance(x, dict):
        return {str(k): jsonable(v) for k, v in x.items()}
    if isinstance(x, (list, tuple, set)):
        return [jsonable(v) for v in x]
    return x


def hooks_env(**kw):
    """set SYMFC_VERIF hooks for the current process; returns a restore function"""
    old = {}
    keys = {"SYMFC_VERIF": "1"}
    for k, v in kw.items():
        keys["SYMFC_VERIF_" + k.upper()] = None if v is None else str(v)
    for k, v in keys.items():
        old[k] = os.environ.get(k)
        if v is None:
            os.environ.pop(k, None)
        else:
            os.environ[k] = v

    def restore():
        for k, v in old.items():
            if v is None:
                os.environ.pop(k, None)
            else:
                os.environ[k] = v
    return restore


class Hooks:
    def __init__(self, **kw):
        self.kw = kw

    def __enter__(self):
        self.restore = hooks_env(**self.kw)

    def __exit__(self, *a):
        self.restore()
