"""Line-protocol client for lean/Driver.lean (the executable model)."""
from __future__ import annotations

import json
import os
import subprocess
from pathlib import Path

LEAN_DIR = Path(__file__).resolve().parent.parent / "lean"


class ModelError(Exception):
    pass


class Driver:
    def __init__(self):
        env = dict(os.environ)
        self.p = subprocess.Popen(
            ["lake", "env", "lean", "--run", "Driver.lean"], cwd=LEAN_DIR,
            stdin=subprocess.PIPE, stdout=subprocess.PIPE, stderr=subprocess.PIPE, text=True, env=env, bufsize=1)
        self.n = 0

    def ask(self, req: dict):
        self.n += 1
        try:
            self.p.stdin.write(json.dumps(req) + "\n")
            self.p.stdin.flush()
            line = self.p.stdout.readline()
        except BrokenPipeError:
            line = ""
        if not line:
            err = self.p.stderr.read()[-2000:] if self.p.stderr else ""
            raise ModelError(f"driver died on {req.get('op')}: {err}")
        rep = json.loads(line)
        if "error" in rep:
            raise ModelError(f"{req.get('op')}: {rep['error']}")
        return rep["ok"]

    def close(self):
        try:
            self.p.stdin.close()
            self.p.wait(timeout=10)
        except Exception:
            self.p.kill()
