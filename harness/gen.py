"""Structured input generators. Every random choice comes from ONE PRNG (seeded by VERIF_SEED)."""
from __future__ import annotations

import itertools
import math
import random
from dataclasses import dataclass, field

import numpy as np


def make_rng(seed: int, salt: str = "") -> random.Random:
    return random.Random(f"{seed}/{salt}")


# --------------------------------------------------------------------------------------
# Abstract cells: a free translation group Z_a x Z_b x Z_c acting on n_a * n_lp atoms
# --------------------------------------------------------------------------------------

@dataclass
class AbstractCell:
    dims: tuple          # (a, b, c)
    n_a: int
    relabel: list        # relabel[canonical atom] = atom index
    row_order: list      # order of translations (identity first)
    tp: np.ndarray = field(default=None)        # (n_lp, N) int
    dist: np.ndarray | None = None              # integer distance matrix (symmetric, T-invariant)

    @property
    def N(self):
        return self.n_a * self.n_lp

    @property
    def n_lp(self):
        return self.dims[0] * self.dims[1] * self.dims[2]

    def lattice_points(self):
        return list(itertools.product(*[range(d) for d in self.dims]))

    def canon(self, b, g):
        a, bb, c = self.dims
        return b * self.n_lp + (g[0] * bb + g[1]) * c + g[2]

    def to_json(self, with_cut=None):
        j = {"N": int(self.N), "tp": self.tp.tolist()}
        if with_cut is not None:
            j["cut"] = {"dist": self.dist.astype(int).tolist(), "cutoff": int(with_cut)}
        return j

    def describe(self):
        return {"dims": list(self.dims), "n_a": self.n_a, "N": int(self.N), "n_lp": int(self.n_lp),
                "relabel": list(map(int, self.relabel)), "row_order": list(map(int, self.row_order))}


def abstract_cell(rng: random.Random, max_N: int = 12, max_nlp: int = 12, min_nlp: int = 1,
                  shuffle: bool = True, with_dist: bool = True, n_shells: int = 5) -> AbstractCell:
    while True:
        dims = tuple(rng.choice([1, 1, 2, 2, 3, 4]) for _ in range(3))
        n_lp = dims[0] * dims[1] * dims[2]
        if not (min_nlp <= n_lp <= max_nlp):
            continue
        max_na = max_N // n_lp
        if max_na < 1:
            continue
        n_a = rng.randint(1, min(3, max_na))
        break
    N = n_a * n_lp
    relabel = list(range(N))
    if shuffle:
        rng.shuffle(relabel)
    pts = list(itertools.product(*[range(d) for d in dims]))
    order = list(range(1, n_lp))
    if shuffle:
        rng.shuffle(order)
    row_order = [0] + order
    cell = AbstractCell(dims=dims, n_a=n_a, relabel=relabel, row_order=row_order)
    tp = np.zeros((n_lp, N), dtype=int)
    for r, li in enumerate(row_order):
        t = pts[li]
        for b in range(n_a):
            for g in pts:
                g2 = tuple((g[k] + t[k]) % dims[k] for k in range(3))
                tp[r, relabel[cell.canon(b, g)]] = relabel[cell.canon(b, g2)]
    cell.tp = tp
    if with_dist:
        cell.dist = _distance_table(rng, cell, pts, n_shells)
    return cell


def redistance(rng: random.Random, cell: "AbstractCell", n_shells: int = 5) -> "AbstractCell":
    """a sibling of `cell`: the SAME atoms, order and translation permutations, another (symmetric, translation
    invariant) distance table — e.g. the same supercell at another volume"""
    import copy
    sib = copy.copy(cell)
    pts = list(itertools.product(*[range(d) for d in cell.dims]))
    sib.dist = _distance_table(rng, cell, pts, n_shells)
    return sib


def _distance_table(rng, cell, pts, n_shells):
    dims, n_a, relabel = cell.dims, cell.n_a, cell.relabel
    N = n_a * len(pts)
    if True:
        # f(b, b', delta) symmetric under (b,b',delta) -> (b',b,-delta); d(i,i) = 0; others >= 1
        table = {}
        dist = np.zeros((N, N), dtype=int)
        for b in range(n_a):
            for b2 in range(n_a):
                for d in pts:
                    key = (b, b2, d)
                    md = tuple((-d[k]) % dims[k] for k in range(3))
                    key2 = (b2, b, md)
                    if key in table:
                        continue
                    if b == b2 and d == (0, 0, 0):
                        v = 0
                    else:
                        v = rng.randint(1, n_shells)
                    table[key] = v
                    table[key2] = v
        for b in range(n_a):
            for g in pts:
                for b2 in range(n_a):
                    for g2 in pts:
                        d = tuple((g2[k] - g[k]) % dims[k] for k in range(3))
                        dist[relabel[cell.canon(b, g)], relabel[cell.canon(b2, g2)]] = table[(b, b2, d)]
    return dist


# --------------------------------------------------------------------------------------
# Geometric crystals (for end-to-end oracles through the public API)
# --------------------------------------------------------------------------------------

PROTOTYPES = {
    # name: (lattice rows, fractional basis, numbers)
    "sc": ([[3.0, 0, 0], [0, 3.0, 0], [0, 0, 3.0]], [[0, 0, 0]], [29]),
    "cscl": ([[4.1, 0, 0], [0, 4.1, 0], [0, 0, 4.1]], [[0, 0, 0], [0.5, 0.5, 0.5]], [55, 17]),
    "fcc_prim": ([[0, 2.0, 2.0], [2.0, 0, 2.0], [2.0, 2.0, 0]], [[0, 0, 0]], [13]),
    "rocksalt_prim": ([[0, 2.8, 2.8], [2.8, 0, 2.8], [2.8, 2.8, 0]], [[0, 0, 0], [0.5, 0.5, 0.5]], [11, 17]),
    "diamond_prim": ([[0, 2.7, 2.7], [2.7, 0, 2.7], [2.7, 2.7, 0]], [[0, 0, 0], [0.25, 0.25, 0.25]], [14, 14]),
    "bcc_prim": ([[-1.6, 1.6, 1.6], [1.6, -1.6, 1.6], [1.6, 1.6, -1.6]], [[0, 0, 0]], [26]),
    "hex1": ([[3.2, 0, 0], [-1.6, 1.6 * math.sqrt(3), 0], [0, 0, 5.1]], [[0, 0, 0]], [12]),
    "hcp": ([[3.2, 0, 0], [-1.6, 1.6 * math.sqrt(3), 0], [0, 0, 5.2]],
            [[1 / 3, 2 / 3, 0.25], [2 / 3, 1 / 3, 0.75]], [12, 12]),
    "wurtzite": ([[3.18, 0, 0], [-1.59, 1.59 * math.sqrt(3), 0], [0, 0, 5.18]],
                 [[1 / 3, 2 / 3, 0.1242], [2 / 3, 1 / 3, 0.6242], [1 / 3, 2 / 3, 0.5008], [2 / 3, 1 / 3, 0.0008]],
                 [7, 7, 31, 31]),
    "tetragonal2": ([[3.0, 0, 0], [0, 3.0, 0], [0, 0, 4.4]], [[0, 0, 0], [0.5, 0.5, 0.37]], [22, 8]),
    "ortho_inv": ([[3.1, 0, 0], [0, 3.9, 0], [0, 0, 4.7]], [[0.13, 0.21, 0.37], [0.87, 0.79, 0.63]], [6, 6]),
    "mono": ([[3.3, 0, 0], [0, 3.8, 0], [1.1, 0, 4.2]], [[0.1, 0.25, 0.2], [0.9, 0.75, 0.8]], [16, 16]),
}

# prototypes used only when named explicitly (not part of the default draw, so the default streams are unchanged):
# several translationally independent atoms of ONE species that no operation relates (P1 with a repeated species, two
# orbits of one element)
EXTRA_PROTOTYPES = {
    "p1_aaa": ([[3.4, 0.3, -0.2], [0.5, 3.9, 0.4], [-0.3, 0.6, 4.3]],
               [[0.11, 0.23, 0.07], [0.52, 0.61, 0.33], [0.78, 0.18, 0.69]], [14, 14, 14]),
    "p1_aab": ([[3.6, -0.4, 0.3], [0.2, 3.3, 0.5], [0.4, -0.3, 4.6]],
               [[0.09, 0.17, 0.21], [0.47, 0.66, 0.58], [0.83, 0.31, 0.84]], [8, 8, 14]),
    "two_orbits": ([[3.2, 0, 0], [0, 3.7, 0], [0, 0, 4.5]],
                   [[0.0, 0.0, 0.0], [0.5, 0.5, 0.31]], [13, 13]),
}


@dataclass
class Crystal:
    name: str
    lattice: np.ndarray       # rows = basis vectors (supercell)
    positions: np.ndarray     # fractional
    numbers: np.ndarray
    n_lp_expected: int
    meta: dict

    def atoms(self):
        from symfc.utils.utils import SymfcAtoms
        return SymfcAtoms(cell=self.lattice, scaled_positions=self.positions, numbers=self.numbers)

    def describe(self):
        return {"name": self.name, "N": int(len(self.numbers)), "n_lp": int(self.n_lp_expected), **self.meta}

    def to_json(self):
        return {"name": self.name, "lattice": self.lattice.tolist(), "positions": self.positions.tolist(),
                "numbers": self.numbers.tolist(), "n_lp_expected": int(self.n_lp_expected), "meta": self.meta}

    @staticmethod
    def from_json(j):
        return Crystal(j["name"], np.array(j["lattice"], dtype=float), np.array(j["positions"], dtype=float),
                       np.array(j["numbers"], dtype=int), j["n_lp_expected"], j.get("meta", {}))


def random_triclinic(rng, n_basis):
    while True:
        L = np.array([[rng.uniform(2.5, 4.5) if i == j else rng.uniform(-1.2, 1.2) for j in range(3)]
                      for i in range(3)])
        if abs(np.linalg.det(L)) > 12.0:
            break
    pos = []
    while len(pos) < n_basis:
        p = [rng.uniform(0, 1) for _ in range(3)]
        ok = True
        for q in pos:
            d = np.array(p) - np.array(q)
            d -= np.rint(d)
            if np.linalg.norm(d @ L) < 1.2:
                ok = False
        if ok:
            pos.append(p)
    nums = [rng.choice([6, 8, 14]) for _ in range(n_basis)]
    return L.tolist(), pos, nums


def hnf_matrices(det: int):
    """all Hermite normal forms with the given determinant (upper-triangular integer)."""
    out = []
    for a in range(1, det + 1):
        if det % a:
            continue
        for b in range(1, det // a + 1):
            if (det // a) % b:
                continue
            c = det // a // b
            for d in range(b):
                for e in range(c):
                    for f in range(c):
                        out.append(np.array([[a, d, e], [0, b, f], [0, 0, c]]))
    return out


def build_supercell(proto_name, lattice, basis, numbers, M: np.ndarray, rng=None, shuffle=False,
                    shift=None, wrap=False) -> Crystal:
    """supercell lattice = M @ lattice (rows); atoms = basis + integer points inside."""
    lattice = np.array(lattice, dtype=float)
    basis = np.array(basis, dtype=float)
    M = np.array(M, dtype=int)
    det = int(round(abs(np.linalg.det(M))))
    S = M @ lattice
    Minv = np.linalg.inv(M)
    # lattice points of the primitive lattice inside the supercell
    rng_box = range(-det - 1, det + 2)
    pts = set()
    for t in itertools.product(rng_box, repeat=3):
        f = np.array(t) @ Minv
        f = f - np.floor(f + 1e-9)
        pts.add(tuple(np.round(f, 9) % 1.0))
    pts = sorted(pts)
    assert len(pts) == det, (len(pts), det)
    pos, nums = [], []
    for b, z in zip(basis, numbers):
        fb = b @ Minv
        for p in pts:
            pos.append(fb + np.array(p))
            nums.append(z)
    pos = np.array(pos)
    nums = np.array(nums)
    if shift is not None:
        pos = pos + np.array(shift)[None, :]
    if not wrap:
        pos = pos - np.floor(pos)
    order = list(range(len(nums)))
    if shuffle and rng is not None:
        rng.shuffle(order)
    pos = pos[order]
    nums = nums[order]
    return Crystal(proto_name, S, pos, nums, det, {"M": M.tolist(), "shuffled": bool(shuffle)})


def crystal(rng: random.Random, max_N: int = 8, protos=None, allow_random=True, shuffle=True,
            min_nlp: int = 1, min_N: int = 2) -> Crystal:
    names = list(protos) if protos else list(PROTOTYPES)
    for _ in range(1000):
        if allow_random and rng.random() < 0.35:
            nb = rng.choice([1, 2, 2, 3])
            name = f"tric{nb}"
            L, B, Z = random_triclinic(rng, nb)
        else:
            name = rng.choice(names)
            L, B, Z = PROTOTYPES[name] if name in PROTOTYPES else EXTRA_PROTOTYPES[name]
        nb = len(Z)
        max_det = max_N // nb
        if max_det < min_nlp:
            continue
        det = rng.randint(min_nlp, max_det)
        if nb * det < min_N:
            continue
        Ms = hnf_matrices(det)
        M = rng.choice(Ms)
        shift = [rng.choice([0.0, 0.0, 0.013, 0.5, 0.25]) for _ in range(3)] if rng.random() < 0.3 else None
        return build_supercell(name, L, B, Z, M, rng=rng, shuffle=shuffle and rng.random() < 0.7, shift=shift)
    raise RuntimeError("no crystal generated")


def dataset(rng: random.Random, n_snap: int, N: int, amp: float = 0.03):
    nprng = np.random.default_rng(rng.getrandbits(32))
    d = nprng.normal(scale=amp, size=(n_snap, N, 3))
    f = nprng.normal(scale=1.0, size=(n_snap, N, 3))
    return d, f
