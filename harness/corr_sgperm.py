"""Correspondence: exact-arithmetic core of compute_sg_permutations (rounding, sorting, fast path of the pure
translations, composition) vs Model/SgPerm.lean. Inputs live on the grid 1/8 so that the floating-point code computes
exactly the model's integers (S = 1000 units per lattice vector, decimals = 3)."""
from __future__ import annotations

import itertools

import numpy as np

from .common import Result, Timer


def grid_structure(rng):
    steps = [rng.choice([8, 4, 4, 2]) for _ in range(3)]          # translation subgroup: multiples of step/8
    while (8 // steps[0]) * (8 // steps[1]) * (8 // steps[2]) > 8:
        steps[rng.randrange(3)] = 8
    n_basis = rng.randint(1, 3)
    cells = list(itertools.product(*[range(s) for s in steps]))
    basis = rng.sample(cells, min(n_basis, len(cells)))
    lat = list(itertools.product(*[range(0, 8, s) for s in steps]))
    pos = [tuple((b[k] + l[k]) % 8 for k in range(3)) for b in basis for l in lat]
    order = list(range(len(pos)))
    rng.shuffle(order)
    pos = [pos[i] for i in order]
    shift = [rng.choice([0, 0, 4, 1, 3, 7]) for _ in range(3)]
    pos = [tuple(p[k] + shift[k] + 8 * rng.choice([0, 0, 1, -1, 2]) for k in range(3)) for p in pos]
    trans = [tuple(l[k] + 8 * rng.choice([0, 0, 1, -1]) for k in range(3)) for l in lat]
    # identity first
    trans.sort(key=lambda t: (tuple(x % 8 for x in t) != (0, 0, 0),))
    return pos, trans, steps


def corr_sg_perm(rng, drv, n_cases=30) -> Result:
    from symfc.utils.utils import _find_optimal_decimals, argsort_positions, compute_sg_permutations
    res = Result("sg_perm_fast_path", "correspondence")
    eye = np.eye(3, dtype=int)
    with Timer(res):
        for k in range(n_cases):
            pos, trans, steps = grid_structure(rng)
            bad_t = None
            if rng.random() < 0.25 and any(s > 1 for s in steps):
                # a translation that is NOT a symmetry: fast path must fail, the distance fall-back asserts
                ax = rng.randrange(3)
                if steps[ax] > 1:
                    bad = [0, 0, 0]
                    bad[ax] = 1
                    bad_t = tuple(bad)
            P = np.array(pos, dtype=float) / 8.0
            ts = list(trans) + ([bad_t] if bad_t else [])
            T = np.array(ts, dtype=float) / 8.0
            nprng = np.random.default_rng(rng.getrandbits(32))
            lattice = np.eye(3) * 5.0 + nprng.normal(scale=0.4, size=(3, 3))
            req = {"op": "fast_trans_perm", "S": 1000, "positions": [[int(x) * 125 for x in p] for p in pos],
                   "translations": [[int(x) * 125 for x in t] for t in ts]}
            m = drv.ask(req)
            res.case(req, len(pos) >= 2, sample={"positions_eighths": pos, "translations_eighths": ts})
            res.count(f"N{len(pos)}")
            res.count("with_non_symmetry_translation" if bad_t else "symmetry_translations_only")
            try:
                dec = _find_optimal_decimals(P)
                distinct = dec == 3
            except RuntimeError:
                distinct = False
            if distinct != m["distinct"]:
                res.fail("distinctness of rounded positions differs", input=req, impl=distinct, model=m["distinct"])
                continue
            ids, _ = argsort_positions(P, decimals=3)
            if list(ids) != m["sorted_ids"]:
                res.fail("argsort_positions differs", input=req, impl=list(map(int, ids)), model=m["sorted_ids"])
                continue
            rots = np.array([eye] * len(ts))
            try:
                out = compute_sg_permutations(P, rots, T, lattice.T, 1e-5).tolist()
                impl = out
            except AssertionError:
                impl = "AssertionError"
            if bad_t:
                if impl != "AssertionError" or m["perms"][-1] is not None:
                    res.fail("a translation that is not a symmetry was not rejected alike", input=req,
                             impl=str(impl)[:80], model=m["perms"][-1])
                continue
            if impl == "AssertionError" or impl != m["perms"]:
                res.fail("pure-translation permutations differ from the fast-path model", input=req,
                         impl=str(impl)[:200], model=str(m["perms"])[:200])
            # composition semantics trans_perms[l, perms]
            tp = np.array(m["perms"][rng.randrange(len(trans))])
            perm = np.array(rng.sample(range(len(pos)), len(pos)))
            if tp[perm].tolist() != drv.ask({"op": "compose_out", "tp": tp.tolist(), "perm": perm.tolist()}):
                res.fail("composition trans_perms[l][perm] differs", input=req)
    return res


def _grid_group(rng):
    """a small space group on the grid 1/8: translation subgroup T, point operations P preserving T, atoms = orbits of
    1-2 seed points; the operation list is P x T (shuffled, integer offsets added), sometimes damaged on purpose"""
    I = np.eye(3, dtype=int)
    gens = rng.choice([[[4, 0, 0]], [[4, 0, 0], [0, 4, 0]], [[4, 4, 0]], [[2, 0, 0]], [[4, 4, 4]], []])
    T = {(0, 0, 0)}
    changed = True
    while changed:
        changed = False
        for t in list(T):
            for g in gens:
                u = tuple((a + b) % 8 for a, b in zip(t, g))
                if u not in T:
                    T.add(u)
                    changed = True
    T = sorted(T)
    P = rng.choice([[I], [I, -I], [I, np.array([[0, 1, 0], [1, 0, 0], [0, 0, 1]])], [I, np.diag([1, -1, 1])],
                    [I, -I, np.diag([1, 1, -1]), np.diag([-1, -1, 1])],
                    [I, np.array([[0, 1, 0], [0, 0, 1], [1, 0, 0]]), np.array([[0, 0, 1], [1, 0, 0], [0, 1, 0]])]])
    P = [R for R in P if all(tuple(int(v) % 8 for v in (R @ np.array(t))) in set(T) for t in T)]
    seeds = [[rng.randint(0, 7) for _ in range(3)] for _ in range(rng.randint(1, 2))]
    atoms = set()
    for s in seeds:
        for R in P:
            for t in T:
                atoms.add(tuple(int(v) % 8 for v in (R @ np.array(s) + np.array(t))))
    atoms = sorted(atoms)
    ps = [[a + 8 * rng.randint(-1, 1) for a in at] for at in atoms]
    rng.shuffle(ps)
    ops = [(R, [int(v) + 8 * rng.randint(-1, 1) for v in t]) for R in P for t in T]
    rng.shuffle(ops)
    damage = "none"
    c = rng.random()
    if c < 0.12 and len(ops) > 1:
        ops.pop(rng.randrange(len(ops)))
        damage = "operation_missing"
    elif c < 0.24:
        ops.append(rng.choice(ops))
        damage = "operation_repeated"
    elif c < 0.32:
        k = rng.randrange(len(ops))
        ops[k] = (ops[k][0], [v + rng.choice([0, 0, 1]) for v in ops[k][1]])
        damage = "translation_perturbed"
    if rng.random() < 0.5:
        # the same structure in ANOTHER (skewed) lattice basis: fractional coordinates x' = x U^-1, rotations U R U^-1
        # (integer matrices with entries outside {-1, 0, 1}), translations t' = t U^-1 — all still on the grid
        while True:
            U = np.array([[rng.randint(-3, 3) for _ in range(3)] for _ in range(3)])
            if round(abs(np.linalg.det(U))) == 1:
                break
        Ui = np.rint(np.linalg.inv(U)).astype(int)
        ps = [[int(v) for v in (np.array(p) @ Ui)] for p in ps]
        # (column-vector convention of the code: x_new = R x + t with x a row of `positions`, i.e. positions @ R.T)
        ops = [(np.rint(Ui.T @ R @ U.T).astype(int), [int(v) for v in (np.array(t) @ Ui)]) for R, t in ops]
        damage = damage + "+skewed_basis"
    return ps, ops, damage


def corr_sg_full(rng, drv, n_cases=40) -> Result:
    """the WHOLE of compute_sg_permutations on grid structures with genuine (and deliberately damaged) operation
    lists vs Model/SgPermFull.lean `sgPermutations` (theorems `sg_permutations_represent_every_operation`,
    `sg_permutations_compose_like_the_operations`): the (n_ops, N) table, or 'no well-formed table' on both sides"""
    from symfc.utils.utils import compute_sg_permutations
    res = Result("sg_permutations_full", "correspondence")
    with Timer(res):
        k = 0
        while k < n_cases:
            ps, ops, damage = _grid_group(rng)
            if len(ps) > 12 or len(ops) > 32:
                continue
            k += 1
            rots = [R.tolist() for R, _ in ops]
            trans = [t for _, t in ops]
            req = {"op": "sg_permutations", "S": 8, "positions": ps, "rotations": rots, "translations": trans}
            m = drv.ask(req)
            nprng = np.random.default_rng(rng.getrandbits(32))
            lattice = np.diag([4.0, 5.0, 6.0]) if any(abs(np.array(r)).sum() != 3 or True for r in rots) else None
            # an orthorhombic metric with unequal axes is not invariant under axis permutations, but the matching only
            # asks for distance < symprec, which is exact (0) on the grid whatever the metric
            try:
                o = compute_sg_permutations(np.array(ps, dtype=float).reshape(-1, 3) / 8.0,
                                            np.array(rots, dtype=int).reshape(-1, 3, 3),
                                            np.array(trans, dtype=float).reshape(-1, 3) / 8.0, lattice)
                real = o.tolist() if (o.ndim == 2 and o.shape == (len(trans), len(ps)) and o.dtype.kind == "i") else None
            except Exception:  # noqa  (AssertionError, IndexError, ValueError, RuntimeError: "no well-formed table")
                real = None
            res.case(req, len(ps) >= 2 and len(ops) >= 2,
                     sample={"positions_eighths": ps, "n_ops": len(ops), "damage": damage})
            res.count(f"N{len(ps)}")
            res.count(f"ops{len(ops)}")
            res.count("damage_" + damage)
            res.count("table" if real is not None else "no_table")
            if m != real:
                res.fail("compute_sg_permutations differs from the model", input=req, impl=real, model=m)
            elif real is not None and damage in ("none", "none+skewed_basis"):
                # the theorem's conclusion, observed: atom a goes to the atom at R x_a + t (mod 1)
                P = np.array(ps)
                for (R, t), row in zip(ops, real):
                    img = (P @ np.array(R).T + np.array(t)) % 8
                    if not np.array_equal(P[np.array(row)] % 8, img):
                        res.fail("a row does not represent its operation", input=req, impl=row)
                        break
    return res
