"""Correspondence: exact-arithmetic core of compute_sg_permutations (rounding, sorting, fast path of the pure
translations, composition) vs Model/SgPerm.lean. Inputs live on the grid 1/8 so that the floating-point code computes
exactly the model's integers (S = 1000 units per lattice vector, decimals = 3)."""
from __future__ import annotations

import itertools

import numpy as np

from .common import Result, Timer


def grid_structure(rng):
    steps = [rng.choice([8, 4, 4, 2]) for _ in range(3)]          # translation subgroup: multiples of step/8
    while (8 // steps[0]) * (8 // steps[1]) * (8 // steps[2]) > 8:
        steps[rng.randrange(3)] = 8
    n_basis = rng.randint(1, 3)
    cells = list(itertools.product(*[range(s) for s in steps]))
    basis = rng.sample(cells, min(n_basis, len(cells)))
    lat = list(itertools.product(*[range(0, 8, s) for s in steps]))
    pos = [tuple((b[k] + l[k]) % 8 for k in range(3)) for b in basis for l in lat]
    order = list(range(len(pos)))
    rng.shuffle(order)
    pos = [pos[i] for i in order]
    shift = [rng.choice([0, 0, 4, 1, 3, 7]) for _ in range(3)]
    pos = [tuple(p[k] + shift[k] + 8 * rng.choice([0, 0, 1, -1, 2]) for k in range(3)) for p in pos]
    trans = [tuple(l[k] + 8 * rng.choice([0, 0, 1, -1]) for k in range(3)) for l in lat]
    # identity first
    trans.sort(key=lambda t: (tuple(x % 8 for x in t) != (0, 0, 0),))
    return pos, trans, steps


def corr_sg_perm(rng, drv, n_cases=30) -> Result:
    from symfc.utils.utils import _find_optimal_decimals, argsort_positions, compute_sg_permutations
    res = Result("sg_perm_fast_path", "correspondence")
    eye = np.eye(3, dtype=int)
    with Timer(res):
        for k in range(n_cases):
            pos, trans, steps = grid_structure(rng)
            bad_t = None
            if rng.random() < 0.25 and any(s > 1 for s in steps):
                # a translation that is NOT a symmetry: fast path must fail, the distance fall-back asserts
                ax = rng.randrange(3)
                if steps[ax] > 1:
                    bad = [0, 0, 0]
                    bad[ax] = 1
                    bad_t = tuple(bad)
            P = np.array(pos, dtype=float) / 8.0
            ts = list(trans) + ([bad_t] if bad_t else [])
            T = np.array(ts, dtype=float) / 8.0
            nprng = np.random.default_rng(rng.getrandbits(32))
            lattice = np.eye(3) * 5.0 + nprng.normal(scale=0.4, size=(3, 3))
            req = {"op": "fast_trans_perm", "S": 1000, "positions": [[int(x) * 125 for x in p] for p in pos],
                   "translations": [[int(x) * 125 for x in t] for t in ts]}
            m = drv.ask(req)
            res.case(req, len(pos) >= 2, sample={"positions_eighths": pos, "translations_eighths": ts})
            res.count(f"N{len(pos)}")
            res.count("with_non_symmetry_translation" if bad_t else "symmetry_translations_only")
            try:
                dec = _find_optimal_decimals(P)
                distinct = dec == 3
            except RuntimeError:
                distinct = False
            if distinct != m["distinct"]:
                res.fail("distinctness of rounded positions differs", input=req, impl=distinct, model=m["distinct"])
                continue
            ids, _ = argsort_positions(P, decimals=3)
            if list(ids) != m["sorted_ids"]:
                res.fail("argsort_positions differs", input=req, impl=list(map(int, ids)), model=m["sorted_ids"])
                continue
            rots = np.array([eye] * len(ts))
            try:
                out = compute_sg_permutations(P, rots, T, lattice.T, 1e-5).tolist()
                impl = out
            except AssertionError:
                impl = "AssertionError"
            if bad_t:
                if impl != "AssertionError" or m["perms"][-1] is not None:
                    res.fail("a translation that is not a symmetry was not rejected alike", input=req,
                             impl=str(impl)[:80], model=m["perms"][-1])
                continue
            if impl == "AssertionError" or impl != m["perms"]:
                res.fail("pure-translation permutations differ from the fast-path model", input=req,
                         impl=str(impl)[:200], model=str(m["perms"])[:200])
            # composition semantics trans_perms[l, perms]
            tp = np.array(m["perms"][rng.randrange(len(trans))])
            perm = np.array(rng.sample(range(len(pos)), len(pos)))
            if tp[perm].tolist() != drv.ask({"op": "compose_out", "tp": tp.tolist(), "perm": perm.tolist()}):
                res.fail("composition trans_perms[l][perm] differs", input=req)
    return res
