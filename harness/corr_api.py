"""Correspondence: the Symfc object as a state machine (api_symfc.py) vs Model/Api.lean.
Random valid + malformed call histories on REAL objects; per step: exception kind, force_constants keys,
basis_set keys; at the end: every stored result must equal what a fresh solver gives for the provenance
(basis sets, dataset, solver combination, compact/full) the model predicts."""
from __future__ import annotations

import numpy as np

from .common import Result, Timer
from .gen import PROTOTYPES, build_supercell

ERRMAP = [
    ("Maximum order and orders not found", "noOrders"),
    ("Only fc2, fc3 and fc4 basis sets are implemented", "badMaxOrder"),
    ("Invalid FC orders", "badOrders"),
    ("Dispalcements not found", "dispNone"),
    ("Forces not found", "forcesNone"),
    ("Shape mismatch", "shapeMismatch"),
    ("Inconsistent array shape of displacements", "dispShape"),
    ("Inconsistent array shape of forces", "forcesShape"),
]


def classify(exc: BaseException) -> str:
    if isinstance(exc, KeyError):
        return "missingBasis"
    msg = str(exc)
    for pat, name in ERRMAP:
        if pat in msg:
            return name
    return f"other:{type(exc).__name__}:{msg[:60]}"


ORDER_SPECS = [
    (None, [2]), (None, [3]), (None, [4]), (None, [2, 3]), (None, [3, 2]), (None, [3, 4]), (None, [2, 3, 4]),
    (None, [4, 2, 3]), (2, None), (3, None), (4, None), (3, [4]), (2, [2, 3, 4]),
    # malformed
    (None, None), (None, []), (None, [2, 2]), (None, [1, 2]), (None, [2, 4]), (None, [5]), (None, [0]),
    (None, [2, 3, 3]), (1, None), (5, None), (0, None), (1, [2]), (None, [3, 4, 5]),
]


_CRYSTALS = None


def small_crystals():
    """tiny low-symmetry cells whose FC2, FC3 and FC4 basis sets are all non-empty (fixed, not random:
    the API state machine does not depend on the crystal)"""
    global _CRYSTALS
    if _CRYSTALS is None:
        import random
        from .gen import random_triclinic
        r = random.Random(12345)
        out = []
        from symfc import Symfc
        while len(out) < 2:
            nb = 2 if len(out) == 0 else r.choice([2, 3])
            L, B, Z = random_triclinic(r, nb)
            cr = build_supercell(f"tric{nb}_111", L, B, Z, np.diag([1, 1, 1]))
            t = Symfc(cr.atoms()).compute_basis_set(max_order=4)
            if all(t.basis_set[o].basis_set.shape[1] > 0 for o in (2, 3, 4)):
                out.append(cr)
        _CRYSTALS = out
    return _CRYSTALS


class World:
    """real objects + token bookkeeping"""

    def __init__(self, rng, crystal, cutoff):
        from symfc import Symfc
        self.rng = rng
        self.crystal = crystal
        self.N = len(crystal.numbers)
        self.arrays = {}      # token -> ndarray
        self.next_id = 1
        self.cutoff_tok = {k: (None if v is None else int(round(v * 1000))) for k, v in cutoff.items()}
        self.cutoff = cutoff
        self.obj = Symfc(crystal.atoms(), cutoff=dict(cutoff))
        self.np_rng = np.random.default_rng(rng.getrandbits(32))
        self._bcache = {}
        self._donor = None

    def basis_for(self, order, tok):
        """basis set of this crystal for (order, cutoff token), built independently of the object under test"""
        from . import physics as ph
        key = (order, tok)
        if key not in self._bcache:
            self._bcache[key] = ph.basis_cls(order)(self.crystal.atoms(), cutoff=None if tok is None else tok / 1000.0).run()
        return self._bcache[key]

    def donor(self):
        """another Symfc object on the same supercell with DIFFERENT cutoffs, all basis sets computed"""
        from symfc import Symfc
        if self._donor is None:
            cut = {k: (None if self.cutoff.get(k) is not None else 25.0 + k) for k in (2, 3, 4)}
            d = Symfc(self.crystal.atoms(), cutoff=dict(cut))
            d.compute_basis_set(max_order=4)
            self._donor = (d, {k: (None if v is None else int(round(v * 1000))) for k, v in cut.items()})
        return self._donor

    def new_array(self, shape):
        tok = self.next_id
        self.next_id += 1
        self.arrays[tok] = self.np_rng.normal(scale=0.05, size=shape)
        return tok


def random_shape(rng, N, good_p=0.75, n_snap=None):
    n_snap = n_snap or rng.choice([70, 72])
    if rng.random() < good_p:
        return [n_snap, N, 3]
    return rng.choice([[n_snap, N + 1, 3], [n_snap, N, 2], [n_snap, N * 3], [n_snap + 1, N, 3], [N, 3], [n_snap, N, 3, 1]])


def corr_api(rng, drv, n_hist=12, hist_len=7) -> Result:
    from symfc.solvers import FCSolverO2, FCSolverO2O3, FCSolverO2O3O4, FCSolverO3, FCSolverO3O4, FCSolverO4
    solver_cls = {(2,): FCSolverO2, (3,): FCSolverO3, (4,): FCSolverO4, (2, 3): FCSolverO2O3,
                  (3, 4): FCSolverO3O4, (2, 3, 4): FCSolverO2O3O4}
    res = Result("api_state_machine", "correspondence")
    crystals = small_crystals()
    with Timer(res):
        for h in range(n_hist):
            cr = crystals[h % len(crystals)]
            cutoff = {2: None, 3: None, 4: None}
            if rng.random() < 0.4:
                cutoff[rng.choice([2, 3, 4])] = 30.0
            w = World(rng, cr, cutoff)
            ops_json, impl_steps = [], []
            basis_tokens = {}      # id(basis object) -> model token dict
            for step in range(hist_len):
                kind = rng.choices(["setDisp", "setForces", "computeBasis", "solve", "run", "setBasis"],
                                   weights=[2, 2, 3, 5, 1, 1])[0]
                if step == 0 and rng.random() < 0.7:
                    kind = "setDisp"
                if step == 1 and rng.random() < 0.7:
                    kind = "setForces"
                mo, od = rng.choice(ORDER_SPECS) if rng.random() < 0.45 else rng.choice(ORDER_SPECS[:13])
                compact = rng.random() < 0.5
                exc = None
                try:
                    if kind in ("setDisp", "setForces"):
                        # keep shapes equal most of the time so that solves go through
                        other = w.obj.displacements if kind == "setForces" else w.obj.forces
                        if other is not None and rng.random() < 0.8:
                            shape = list(other.shape)
                        else:
                            shape = random_shape(rng, w.N)
                        tok = w.new_array(shape)
                        if kind == "setDisp":
                            w.obj.displacements = w.arrays[tok]
                            w.disp_tok = tok
                        else:
                            w.obj.forces = w.arrays[tok]
                            w.forces_tok = tok
                        ops_json.append({"t": kind, "id": tok, "shape": shape})
                    elif kind == "setBasis":
                        donor, dtok = w.donor()
                        keys = sorted(donor.basis_set.keys())
                        ops_json.append({"t": kind, "dict": [{"key": k, "order": k, "cfgId": 1, "cutoff": dtok[k]} for k in keys]})
                        w.obj.basis_set = dict(donor.basis_set)
                    elif kind == "computeBasis":
                        ops_json.append({"t": kind, "max_order": mo, "orders": od})
                        w.obj.compute_basis_set(max_order=mo, orders=od)
                    elif kind == "solve":
                        ops_json.append({"t": kind, "max_order": mo, "orders": od, "compact": compact})
                        w.obj.solve(max_order=mo, orders=od, is_compact_fc=compact)
                    else:
                        ops_json.append({"t": kind, "max_order": mo, "orders": od, "compact": compact})
                        w.obj.run(max_order=mo, orders=od, is_compact_fc=compact)
                except np.linalg.LinAlgError:
                    exc = "linalg"
                except Exception as e:  # noqa
                    exc = classify(e)
                    if exc.startswith("other:") and kind in ("computeBasis", "run") and "basis" not in str(e).lower():
                        # numerical layer failed while building a basis set: outside the API model
                        res.count("basis_construction_failed_" + type(e).__name__)
                        exc = "linalg"
                impl_steps.append({"result": exc or "ok",
                                   "fc_keys": sorted(w.obj.force_constants.keys()),
                                   "basis_keys": sorted(w.obj.basis_set.keys()),
                                   "basis_cut": {k: (None if b._fc_cutoff is None else int(round(b._fc_cutoff._cutoff * 1000)))
                                                 for k, b in w.obj.basis_set.items()},
                                   "fc_ids": {k: id(v) for k, v in w.obj.force_constants.items()}})
                if exc == "linalg":
                    break
            if impl_steps and impl_steps[-1]["result"] == "linalg":
                res.count("history_dropped_singular_fit")
                continue
            req = {"op": "api", "natom": w.N, "cfgId": 1,
                   "cutoff": [{"key": k, "val": w.cutoff_tok[k]} for k in (2, 3, 4)],
                   "disp": None, "forces": None, "ops": ops_json}
            m = drv.ask(req)
            res.case(req, True, sample={"crystal": cr.name, "ops": ops_json})
            res.count("histories")
            ok = True
            for i, (a, b) in enumerate(zip(impl_steps, m)):
                res.count("op_" + ops_json[i]["t"])
                res.count("result_" + a["result"].split(":")[0])
                mk = sorted(e["key"] for e in b["state"]["fc"])
                mb = sorted(e["key"] for e in b["state"]["basis"])
                mcut = {e["key"]: e["val"]["cutoff"] for e in b["state"]["basis"]}
                if a["result"] == b["result"] and a["fc_keys"] == mk and a["basis_keys"] == mb and a["basis_cut"] != mcut:
                    res.fail("basis sets held by the object were built with other cutoffs than the model says",
                             step=i, ops=ops_json[: i + 1], impl=a["basis_cut"], model=mcut)
                    ok = False
                    break
                if a["result"] != b["result"] or a["fc_keys"] != mk or a["basis_keys"] != mb:
                    res.fail("API step differs", step=i, ops=ops_json[: i + 1], impl=a["result"], model=b["result"],
                             impl_fc_keys=a["fc_keys"], model_fc_keys=mk, impl_basis=a["basis_keys"], model_basis=mb)
                    ok = False
                    break
                if i > 0 and a["result"] != "ok":
                    # a rejected request must leave every stored result object untouched (identity)
                    if a["fc_ids"] != impl_steps[i - 1]["fc_ids"]:
                        res.fail("rejected request replaced stored force constants", step=i, ops=ops_json[: i + 1])
                        ok = False
            if not ok or not m:
                continue
            # provenance check of the final state
            final = m[-1]["state"]["fc"]
            for ent in final:
                v = ent["val"]
                orders = tuple(v["orders"])
                bases = [w.basis_for(b["order"], b["cutoff"]) for b in v["bases"]]
                d = w.arrays[v["disp"]]
                f = w.arrays[v["forces"]]
                try:
                    sol = solver_cls[orders](bases[0] if len(bases) == 1 else bases)
                    sol.solve(d, f)
                    out = sol.compact_fc if v["compact"] else sol.full_fc
                except Exception as e:  # noqa
                    res.count("provenance_skipped_" + type(e).__name__)
                    continue
                arr = out if len(orders) == 1 else out[list(orders).index(v["order"])]
                got = w.obj.force_constants[ent["key"]]
                res.count("provenance_checked")
                # the basis object used may have been recomputed since (same supercell/cutoff => same value)
                if got.shape != arr.shape or not np.allclose(got, arr, atol=1e-8 * max(1.0, np.abs(arr).max())):
                    res.fail("stored force constants do not match the provenance predicted by the model",
                             ops=ops_json, key=ent["key"], provenance=v)
    return res


def corr_check_orders(drv) -> Result:
    """exhaustive small enumeration of order specifications against the real `_check_orders`"""
    import itertools
    from symfc import Symfc
    res = Result("check_orders", "correspondence")
    cr = small_crystals()[0]
    obj = Symfc(cr.atoms())
    with Timer(res):
        specs = [(m, None) for m in range(0, 7)] + [(None, None)]
        for r in range(0, 4):
            for tup in itertools.product(range(0, 6), repeat=r):
                specs.append((None, list(tup)))
        for m in (1, 2, 3, 4, 5):
            specs.append((m, [2]))
            specs.append((m, [7]))
        for mo, od in specs:
            try:
                impl = list(obj._check_orders(mo, od))
            except Exception as e:  # noqa
                impl = classify(e)
            mm = drv.ask({"op": "check_orders", "max_order": mo, "orders": od})
            res.case([mo, od], True, sample={"max_order": mo, "orders": od} if len(res.samples) < 2 else None)
            if impl != mm:
                res.fail("_check_orders differs", max_order=mo, orders=od, impl=impl, model=mm)
    res.counters["exhaustive_over"] = "max_order 0..6, orders lists over {0..5} up to length 3"
    return res


def corr_api_multi(rng, drv, n_hist=10, hist_len=9) -> Result:
    """SEVERAL real Symfc objects on one supercell (same or different cutoffs) handing their basis-set dicts to each
    other (`b.basis_set = a.basis_set` shares the dict) vs Model/ApiMulti.lean: per step the exception kind; for solves
    the keys written; at the end, for every object, which basis set (order, cutoff) it holds — including entries that
    were replaced THROUGH a shared dict by another object."""
    res = Result("api_multi_object", "correspondence")
    crystals = small_crystals()
    from symfc import Symfc
    with Timer(res):
        for h in range(n_hist):
            cr = crystals[h % len(crystals)]
            N = len(cr.numbers)
            np_rng = np.random.default_rng(rng.getrandbits(32))
            n_obj = rng.randint(2, 3)
            consistent = rng.random() < 0.5
            base_cut = {2: rng.choice([None, 30.0]), 3: None, 4: None}
            objs, cut_tok, ops_json, impl = [], [], [], []
            arrays = {}
            next_id = [1]

            def tok(v):
                return None if v is None else int(round(v * 1000))
            for i in range(n_obj):
                cut = dict(base_cut) if (consistent or i == 0) else {2: rng.choice([None, 30.0, 31.0]), 3: rng.choice([None, 29.0]), 4: None}
                objs.append(Symfc(cr.atoms(), cutoff=dict(cut)))
                cut_tok.append({k: tok(v) for k, v in cut.items()})
                ops_json.append({"t": "new", "natom": N, "cfgId": 1, "cutoff": [{"key": k, "val": tok(cut[k])} for k in (2, 3, 4)]})
                impl.append({"result": "ok"})
            for step in range(hist_len):
                kind = rng.choices(["setDisp", "setForces", "handOver", "computeBasis", "solve"], weights=[2, 2, 3, 4, 4])[0]
                i = rng.randrange(n_obj)
                mo, od = rng.choice(ORDER_SPECS[:5] + ORDER_SPECS[8:10]) if rng.random() < 0.85 else rng.choice(ORDER_SPECS)
                compact = rng.random() < 0.5
                exc = None
                rec = {}
                try:
                    if kind in ("setDisp", "setForces"):
                        t = next_id[0]
                        next_id[0] += 1
                        arrays[t] = np_rng.normal(scale=0.05, size=(70, N, 3))
                        if kind == "setDisp":
                            objs[i].displacements = arrays[t]
                        else:
                            objs[i].forces = arrays[t]
                        ops_json.append({"t": kind, "obj": i, "id": t, "shape": [70, N, 3]})
                    elif kind == "handOver":
                        j = rng.randrange(n_obj)
                        ops_json.append({"t": kind, "dst": i, "src": j})
                        objs[i].basis_set = objs[j].basis_set
                    elif kind == "computeBasis":
                        ops_json.append({"t": kind, "obj": i, "max_order": mo, "orders": od})
                        objs[i].compute_basis_set(max_order=mo, orders=od)
                    else:
                        ops_json.append({"t": kind, "obj": i, "max_order": mo, "orders": od, "compact": compact})
                        objs[i].solve(max_order=mo, orders=od, is_compact_fc=compact)
                        rec["fc_keys"] = sorted(objs[i].force_constants.keys())
                except np.linalg.LinAlgError:
                    exc = "linalg"
                except Exception as e:  # noqa
                    exc = classify(e)
                    if exc.startswith("other:") and kind == "computeBasis":
                        exc = "linalg"
                rec["result"] = exc or "ok"
                if kind == "solve" and "fc_keys" not in rec:
                    rec["fc_keys"] = sorted(objs[i].force_constants.keys())
                impl.append(rec)
                if exc == "linalg":
                    break
            if impl[-1]["result"] == "linalg":
                res.count("history_dropped_numerical")
                continue
            held = [sorted([k, 1, (None if b._fc_cutoff is None else int(round(b._fc_cutoff._cutoff * 1000)))]
                           for k, b in o.basis_set.items()) for o in objs]
            shared = any(objs[a].basis_set is objs[b].basis_set for a in range(n_obj) for b in range(a))
            req = {"op": "api_multi", "ops": ops_json}
            m = drv.ask(req)
            res.case(req, True, sample={"crystal": cr.name, "n_objects": n_obj, "consistent": consistent, "ops": ops_json[:6]})
            res.count("consistent_configurations" if consistent else "different_cutoffs")
            res.count("dict_shared_at_end" if shared else "no_dict_shared_at_end")
            ok = True
            for k_, (a, b) in enumerate(zip(impl, m["steps"])):
                res.count("op_" + ops_json[k_]["t"])
                if a["result"] != b["result"]:
                    res.fail("multi-object API step differs", step=k_, ops=ops_json[: k_ + 1], impl=a["result"], model=b["result"])
                    ok = False
                    break
                if "fc_keys" in a and "fc" in b and a["fc_keys"] != sorted(e["key"] for e in b["fc"]):
                    res.fail("force-constant keys differ after a solve", step=k_, ops=ops_json[: k_ + 1],
                             impl=a["fc_keys"], model=sorted(e["key"] for e in b["fc"]))
                    ok = False
                    break
            if ok and [sorted(x) for x in m["basis"]] != held:
                res.fail("basis sets held by the objects (order, cutoff) differ from the model — dict sharing",
                         ops=ops_json, impl=held, model=m["basis"])
    return res
