"""Correspondence: sum-rule rows, coset projector pattern, atom-tuple representation, reshape chains,
normal equations (operational AND Taylor spec) — real symfc in-process vs the Lean model."""
from __future__ import annotations

import importlib

import numpy as np
import scipy.sparse as sp

from .common import Hooks, Result, Timer
from .corr_index import fake_cutoff
from .gen import abstract_cell


# ------------------------------------------------------------------------------------------
def capture_sum_rule(order, tp, fc_cutoff, n_batch, fast=True):
    """run the REAL compressed_projector_sum_rules_O{n}[_stable] with an identity compression matrix and
    capture every c_sum_cplmt (COO) handed to dot_product_sparse."""
    mod = importlib.import_module(f"symfc.utils.matrix_tools_O{order}")
    fn = getattr(mod, f"compressed_projector_sum_rules_O{order}" + ("" if fast else "_stable"))
    n_lp, N = tp.shape
    size = N ** order * 3 ** order // n_lp
    ident = sp.identity(size, format="csr")
    orig = mod.dot_product_sparse
    cap = []

    def wrapped(A, B, use_mkl=False, dense=False):
        if B is ident:
            coo = sp.coo_array(A)
            cap.append(sorted(zip(coo.row.tolist(), coo.col.tolist())))
            if not np.all(coo.data == 1.0):
                cap.append("NONUNIT")
        return orig(A, B, use_mkl=use_mkl, dense=dense)

    mod.dot_product_sparse = wrapped
    try:
        kw = {"n_batch": n_batch} if (n_batch is not None or order == 2) else {}
        if order == 2 and n_batch is None:
            kw = {"n_batch": 1}
        proj = fn(tp, ident, fc_cutoff=fc_cutoff, **kw)
    finally:
        mod.dot_product_sparse = orig
    return cap, proj


def corr_sum_rule(rng, drv, n_cases=24, sizes=((8, 8), (5, 6), (4, 4))) -> Result:
    res = Result("sum_rule", "correspondence")
    with Timer(res):
        for k in range(n_cases):
            order = (2, 3, 4)[k % 3]
            maxN, maxnlp = sizes[order - 2]
            # unshuffled cells are "species-grouped" (phonopy order): independent atoms 0, n_lp, 2 n_lp, ..
            # so that with many batches an empty batch precedes a non-empty one
            c = abstract_cell(rng, max_N=maxN, max_nlp=maxnlp, n_shells=3, shuffle=rng.random() < 0.5)
            use_cut = rng.random() < 0.5
            cutoff = rng.randint(1, 4) if use_cut else None
            fast = rng.random() < 0.6
            n_batch = rng.choice([1, 2, 3, c.N, c.N, c.N]) if c.N > 1 else 1
            n_batch = min(n_batch, c.N)
            if k % 4 == 1:
                # "empty batch BEFORE a non-empty batch" stream: species-grouped order (independent atoms 0, n_lp, ..),
                # at least two atoms per primitive cell, several lattice points, one atom per batch — the loop has to
                # SKIP the empty batches and carry on
                for _ in range(200):
                    c = abstract_cell(rng, max_N=max(maxN, 4), max_nlp=max(maxnlp, 2), min_nlp=2, n_shells=3, shuffle=False)
                    if c.N // c.n_lp >= 2:
                        break
                n_batch = c.N
                res.count("empty_batch_stream")
            if k % 4 == 3:
                # "every batch non-empty" stream: few lattice points, one atom per batch — accumulation over several
                # non-empty batches followed by ONE normalisation
                for _ in range(50):
                    c = abstract_cell(rng, max_N=maxN, max_nlp=2, n_shells=3, shuffle=rng.random() < 0.5)
                    if c.N // c.n_lp >= 2:
                        break
                n_batch = c.N
                fast = rng.random() < 0.8
                res.count("every_batch_nonempty_stream")
            fc = fake_cutoff(c, cutoff) if use_cut else None
            j = c.to_json(with_cut=cutoff) if use_cut else c.to_json()
            batch_size = c.N ** (order - 1) * (c.N // n_batch)
            res.case([j, order, fast, n_batch], c.n_lp >= 2,
                     sample={"cell": c.describe(), "order": order, "cutoff": cutoff, "fast": fast, "n_batch": n_batch})
            res.count(f"order{order}")
            res.count("fast" if fast else "stable")
            res.count("multi_batch" if n_batch > 1 else "one_batch")
            cap, proj = capture_sum_rule(order, c.tp, fc, n_batch, fast=fast)
            if "NONUNIT" in cap:
                res.fail("c_sum_cplmt has entries != 1", input=j, order=order)
                continue
            m = drv.ask({"op": "sum_rule", "n": order, "fast": fast, "batch_size": batch_size, **j})
            mb = [sorted(map(tuple, b)) for b in m["batches"] if b is not None]
            skipped = [b is None for b in m["batches"]]
            if any(sk and not all(skipped[i:]) for i, sk in enumerate(skipped)):
                res.count("empty_batch_before_nonempty_batch")
            if mb != cap:
                res.fail(f"sum-rule rows O{order} ({'fast' if fast else 'stable'}) differ", input=j, order=order,
                         n_batch=n_batch, impl_batches=len(cap), model_batches=len(mb),
                         impl=str(cap)[:300], model=str(mb)[:300])
                continue
            # projector = I - (sum_r t_r t_r^T) / divisor
            size = proj.shape[0]
            S = sp.csr_array((size, size))
            for b in mb:
                if not b:
                    continue
                rows = np.array([r for r, _ in b])
                cols = np.array([cc for _, cc in b])
                A = sp.coo_array((np.ones(len(b)), (rows, cols)), shape=(rows.max() + 1, size)).tocsr()
                S = S + (A.T @ A)
            P = sp.identity(size, format="csr") - S / m["divisor"]
            D = (P - sp.csr_array(proj))
            if D.nnz and float(abs(D).max()) > 1e-12:
                res.fail(f"sum-rule projector O{order} != I - S/divisor (divisor {m['divisor']})", input=j, order=order)
    return res


# ------------------------------------------------------------------------------------------
class _SpgShim:
    """exposes ONE operation of a real SpgReps-like object (translation perms + an atom permutation)"""

    def __init__(self, tp, perm, order):
        self.translation_permutations = tp
        self.unique_rotation_indices = [0]
        self._perm = np.asarray(perm)
        self._order = order
        N = tp.shape[1]
        self._tuples = np.array(np.meshgrid(*[np.arange(N)] * order, indexing="ij")).reshape(order, -1).T
        e = np.zeros((3 ** order, 3 ** order))
        e[0, 0] = 1.0
        self.r_reps = [sp.csr_array(e)]

    def _rep(self, i, nonzero=None):
        t = self._tuples if nonzero is None else self._tuples[nonzero]
        N = self.translation_permutations.shape[1]
        out = np.zeros(len(t), dtype=int)
        for k in range(self._order):
            out = out * N + self._perm[t[:, k]]
        return out

    get_sigma2_rep = _rep
    get_sigma3_rep = _rep
    get_sigma4_rep = _rep


def normaliser_perm(rng, c):
    """an atom permutation that normalises the translation group: another translation composed with a
    lattice automorphism (negation of the lattice-point group, which is always an automorphism)."""
    N = c.N
    pts = c.lattice_points()
    inv = np.argsort(np.array(c.relabel))
    perm = np.zeros(N, dtype=int)
    t = rng.choice(pts)
    neg = rng.random() < 0.5
    for b in range(c.n_a):
        for g in pts:
            g2 = tuple(((-g[k] if neg else g[k]) + t[k]) % c.dims[k] for k in range(3))
            perm[c.relabel[c.canon(b, g)]] = c.relabel[c.canon(b, g2)]
    return perm, neg


def corr_coset(rng, drv, n_cases=18, sizes=((8, 8), (5, 6), (4, 4))) -> Result:
    """integer matrix C^T sigma(g) C of get_compr_coset_projector_O{n} (fast and _stable) for a single
    operation g, and SpgRepsO{n}-style sigma data, vs Model.cosetPairs / sigmaRep."""
    res = Result("coset", "correspondence")
    with Timer(res):
        for k in range(n_cases):
            order = (2, 3, 4)[k % 3]
            maxN, maxnlp = sizes[order - 2]
            c = abstract_cell(rng, max_N=maxN, max_nlp=maxnlp, n_shells=3)
            perm, neg = normaliser_perm(rng, c)
            use_cut = rng.random() < 0.5
            cutoff = rng.randint(1, 4) if use_cut else None
            # distance table must be invariant under the operation for a realistic input: use negation-
            # symmetric tables only when neg (the generator's table is symmetric under (b,b',d)->(b',b,-d) only)
            fc = fake_cutoff(c, cutoff) if use_cut else None
            j = c.to_json(with_cut=cutoff) if use_cut else c.to_json()
            mod = importlib.import_module(f"symfc.utils.utils_O{order}")
            variants = [("fast", getattr(mod, f"get_compr_coset_projector_O{order}"))]
            if order >= 3:
                variants.append(("stable", getattr(mod, f"get_compr_coset_projector_O{order}_stable")))
            shim = _SpgShim(c.tp, perm, order)
            res.case([j, order, perm.tolist()], c.n_lp >= 2,
                     sample={"cell": c.describe(), "order": order, "cutoff": cutoff, "perm": perm.tolist()})
            res.count(f"order{order}")
            res.count("negating" if neg else "translation_only")
            for vname, fn in variants:
                fastmask = (order >= 3 and vname == "fast")
                out = fn(shim, fc_cutoff=fc)
                p3 = 3 ** order
                dense = out.toarray()[::p3, ::p3]
                factor = 1.0 if fastmask else 1.0 / c.n_lp
                mat = np.rint(dense / factor).astype(int)
                if not np.allclose(mat * factor, dense, atol=1e-12):
                    res.fail(f"coset projector O{order} {vname}: entries are not multiples of the factor", input=j)
                    continue
                m = drv.ask({"op": "coset_pairs", "n": order, "perm": perm.tolist(), "fast": fastmask, **j})
                M = np.zeros_like(mat)
                for r, cc in m:
                    M[r, cc] += 1
                if not np.array_equal(M, mat):
                    res.fail(f"coset class matrix O{order} {vname} differs", input=j, perm=perm.tolist(),
                             impl_nnz=int((mat != 0).sum()), model_nnz=int((M != 0).sum()))
            # sigma rep of the real SpgReps classes (data function only needs _permutations etc.)
            sig = shim._rep(0)
            ms = drv.ask({"op": "sigma_rep", "N": int(c.N), "n": order, "perm": perm.tolist(), "mask": None})
            if sig.tolist() != ms:
                res.fail("sigma rep differs", input=j)
    return res


# ------------------------------------------------------------------------------------------
def corr_reshape(rng, drv, n_cases=18) -> Result:
    """reshape_nN33_nx_to_N3_n3nx / reshape_nNN333_nx_to_N3N3_n3nx / reshape_nNNN3333_nx_to_N3N3N3_n3nx on random
    sparse matrices vs the generated divmod chain applied entry by entry."""
    from symfc.solvers.solver_O2 import reshape_nN33_nx_to_N3_n3nx
    from symfc.solvers.solver_O2O3 import reshape_nNN333_nx_to_N3N3_n3nx
    from symfc.solvers.solver_O2O3O4 import reshape_nNNN3333_nx_to_N3N3N3_n3nx
    fns = {2: reshape_nN33_nx_to_N3_n3nx, 3: reshape_nNN333_nx_to_N3N3_n3nx, 4: reshape_nNNN3333_nx_to_N3N3N3_n3nx}
    res = Result("reshape", "correspondence")
    with Timer(res):
        for k in range(n_cases):
            order = (2, 3, 4)[k % 3]
            N = rng.randint(1, (6, 4, 3)[order - 2])
            n = rng.randint(1, N)
            nx = rng.randint(1, 5)
            nrow = n * N ** (order - 1) * 3 ** order
            nnz = rng.randint(40, 120)
            rows = [rng.randrange(nrow) for _ in range(nnz)]
            cols = [rng.randrange(nx) for _ in range(nnz)]
            ents = sorted(set(zip(rows, cols)))
            if order == 4 and len(ents) < 36:
                continue
            data = np.arange(1, len(ents) + 1, dtype=float)
            mat = sp.csr_array((data, ([e[0] for e in ents], [e[1] for e in ents])), shape=(nrow, nx))
            coo_in = mat.tocoo()
            order_in = list(zip(coo_in.row.tolist(), coo_in.col.tolist(), coo_in.data.tolist()))
            out = fns[order](mat.copy(), N, n).tocoo()
            got = {float(v): (int(r), int(c)) for r, c, v in zip(out.row, out.col, out.data)}
            m = drv.ask({"op": "chain_run", "k": order, "N": N, "nx": nx, "entries": [[r, c] for r, c, _ in order_in]})
            res.case([order, N, n, nx, ents], True, sample={"order": order, "N": N, "n": n, "nx": nx, "nnz": len(ents)})
            res.count(f"order{order}")
            exp_shape = (N ** (order - 1) * 3 ** (order - 1), n * 3 * nx)
            if out.shape != exp_shape:
                res.fail("reshape output shape differs", order=order, N=N, n=n, nx=nx, impl=list(out.shape), model=list(exp_shape))
            bad = [(r, c, v) for (r, c, v), mm in zip(order_in, m) if got.get(v) != tuple(mm)]
            if bad:
                res.fail(f"reshape chain O{order} differs", order=order, N=N, n=n, nx=nx, first=bad[:5])
    return res


# ------------------------------------------------------------------------------------------
SOLVER_FUNCS = {
    "O2": ("symfc.solvers.solver_O2", "prepare_normal_equation_O2", [2]),
    "O3": ("symfc.solvers.solver_O3", "prepare_normal_equation_O3", [3]),
    "O4": ("symfc.solvers.solver_O4", "prepare_normal_equation_O4", [4]),
    "O2O3": ("symfc.solvers.solver_O2O3", "prepare_normal_equation_O2O3", [2, 3]),
    "O3O4": ("symfc.solvers.solver_O3O4", "prepare_normal_equation_O3O4", [3, 4]),
    "O2O3O4": ("symfc.solvers.solver_O2O3O4", "prepare_normal_equation_O2O3O4", [2, 3, 4]),
}


def random_compress(rng, nrows, nx, density=0.25):
    rows = []
    dense = np.zeros((nrows, nx))
    for r in range(nrows):
        ent = []
        for cidx in range(nx):
            if rng.random() < density:
                v = rng.choice([-2, -1, 1, 2, 3])
                ent.append([cidx, v])
                dense[r, cidx] = v
        rows.append(ent)
    return rows, sp.csr_array(dense)


def corr_normal_eq(rng, drv, n_cases=12, solvers=None, maxN=(4, 3, 2)) -> Result:
    """prepare_normal_equation_* of all six solvers with small-integer inputs (exact in floating point up
    to the 1/6 constant), forced atom batches (hook) and snapshot batches, vs BOTH the operational model
    (decompr expansion + divmod chain + Gram accumulation over batches) and the Taylor-expansion spec."""
    from symfc.utils.utils_O2 import _get_atomic_lat_trans_decompr_indices
    from symfc.utils.utils_O3 import get_atomic_lat_trans_decompr_indices_O3
    from symfc.utils.utils_O4 import get_atomic_lat_trans_decompr_indices_O4
    adf = {2: _get_atomic_lat_trans_decompr_indices, 3: get_atomic_lat_trans_decompr_indices_O3,
           4: get_atomic_lat_trans_decompr_indices_O4}
    res = Result("normal_eq", "correspondence")
    names = solvers or list(SOLVER_FUNCS)
    with Timer(res):
        for k in range(n_cases):
            name = names[k % len(names)]
            modname, fname, orders = SOLVER_FUNCS[name]
            mx = maxN[max(orders) - 2]
            c = abstract_cell(rng, max_N=mx, max_nlp=mx, with_dist=False)
            N = c.N
            n_a = c.n_a
            n_snap = rng.randint(1, 4)
            snap_batch = rng.choice([1, 2, 100])
            atom_nbatch = rng.randint(1, N)
            us = [[rng.choice([-2, -1, 0, 1, 2]) for _ in range(3 * N)] for _ in range(n_snap)]
            fs = [[rng.choice([-3, -1, 0, 1, 2]) for _ in range(3 * N)] for _ in range(n_snap)]
            ods, args_cc, args_ev, args_ad = [], [], [], []
            ok_size = True
            for o in orders:
                nrows = n_a * N ** (o - 1) * 3 ** o
                nx = rng.randint(1, 3)
                dens = 0.3 if o < 4 else 0.5
                rows, cc = random_compress(rng, nrows, nx, density=dens)
                if o == 4 and cc.nnz * 1 < 36 * N:   # reshape of O4 needs >= 36 stored entries per atom batch
                    ok_size = False
                ods.append({"k": o, "nx": nx, "cc": rows})
                args_cc.append(cc)
                args_ev.append(np.eye(nx))
                args_ad.append(adf[o](c.tp))
            res.case([c.to_json(), name, us, fs, atom_nbatch, snap_batch], True,
                     sample={"cell": c.describe(), "solver": name, "n_snap": n_snap, "snap_batch": snap_batch,
                             "atom_batches": atom_nbatch})
            res.count(f"solver_{name}")
            res.count("atom_batches>1" if atom_nbatch > 1 else "atom_batches=1")
            res.count("snap_batches>1" if snap_batch < n_snap else "snap_batches=1")
            mod = importlib.import_module(modname)
            fn = getattr(mod, fname)
            d = np.array(us, dtype=float)
            f = np.array(fs, dtype=float)
            before = [a.copy() for a in args_cc]
            try:
                with Hooks(solver_nbatch=atom_nbatch):
                    XTX, XTy = fn(d, f, *args_cc, *args_ev, *args_ad, batch_size=snap_batch)
                impl = "ok"
            except ValueError as e:
                impl = "ValueError"
            if impl == "ok":
                # (when the call raises, the in-place scaling is not undone; the API only ever passes fresh copies,
                #  see C12.solvers_scale_fresh_copies_only, so that is not a property violation)
                for a, b in zip(args_cc, before):
                    if a.nnz and abs(a - b).max() > 1e-12:
                        res.fail("compression matrix argument not restored after the in-place scaling", solver=name)
            atom_batch = N // min(N, atom_nbatch)
            m = drv.ask({"op": "normal_eq", "solver": name, "orders": ods, "disps": us, "forces": fs,
                         "atom_batch": atom_batch, "snap_batch": snap_batch, **c.to_json()})
            if impl == "ValueError":
                res.count("zero_batch_in_reshape")
                # the model has no zero-size reshape batches (they only split the work); nothing to compare
                continue
            if m == "ValueError":
                res.fail("model reports zero batch size but the implementation ran", solver=name)
                continue
            g = np.array(m["XTX36"], dtype=float) / 36.0
            xy = np.array(m["XTy6"], dtype=float) / 6.0
            gs = np.array(m["specXTX36"], dtype=float) / 36.0
            xys = np.array(m["specXTy6"], dtype=float) / 6.0
            scale = max(1.0, np.abs(g).max())
            if not np.allclose(XTX, g, atol=1e-9 * scale) or not np.allclose(XTy, xy, atol=1e-9 * scale):
                res.fail(f"normal equations of solver {name} differ from the operational model",
                         cell=c.to_json(), orders=ods, disps=us, forces=fs, atom_nbatch=atom_nbatch,
                         snap_batch=snap_batch, max_diff=float(np.abs(XTX - g).max()))
            if not np.allclose(XTX, gs, atol=1e-9 * scale) or not np.allclose(XTy, xys, atol=1e-9 * scale):
                res.fail(f"normal equations of solver {name} differ from the Taylor-expansion spec",
                         cell=c.to_json(), orders=ods, disps=us, forces=fs, atom_nbatch=atom_nbatch,
                         snap_batch=snap_batch, max_diff=float(np.abs(XTX - gs).max()))
            if m["XTX36"] != m["specXTX36"] or m["XTy6"] != m["specXTy6"]:
                res.fail(f"operational model != Taylor spec inside the model (solver {name})", cell=c.to_json())
    return res


def corr_spg_reps(rng, drv, n_cases=9, max_N=(8, 6, 4)) -> Result:
    """REAL SpgRepsO{2,3,4} objects on real crystals (operations from spglib and supplied by the caller in another
    order): for EVERY coset representative i the index array `get_sigma{n}_rep(i[, nonzero])` is the model's
    `sigmaRep` of the atom permutation that an independent geometric computation assigns to the i-th unique rotation
    (`R x + t`), and the Cartesian matrix `r_reps[i]` is the n-fold Kronecker power of that rotation.
    All arrays are requested FIRST and compared afterwards (a result must not change when the next one is requested)."""
    from . import physics as ph
    from .gen import crystal
    from .oracles import _explicit_ops
    import importlib
    res = Result("spg_reps", "correspondence")
    with Timer(res):
        for k in range(n_cases):
            order = (2, 3, 4)[k % 3]
            cr = crystal(rng, max_N=max_N[order - 2], min_nlp=2 if k % 2 else 1)
            N = len(cr.numbers)
            ops = _explicit_ops(cr, rng.randrange(10 ** 6)) if k % 2 else None
            mod = importlib.import_module(f"symfc.spg_reps.spg_reps_O{order}")
            reps = getattr(mod, f"SpgRepsO{order}")(cr.atoms(), spacegroup_operations=ops)
            get = getattr(reps, f"get_sigma{order}_rep")
            uri = list(reps.unique_rotation_indices)
            rots = np.asarray(reps._rotations) if hasattr(reps, "_rotations") else None
            if ops is not None:
                all_r, all_t = ops["rotations"], ops["translations"]
            else:
                all_r, all_t = ph.spg_ops(cr)
            mask = None
            if (k // 3) % 2 == 0 and N ** order > 4:
                mask = np.zeros(N ** order, dtype=bool)
                mask[rng.sample(range(N ** order), max(1, N ** order // 2))] = True
            held = [get(i) if mask is None else get(i, nonzero=mask) for i in range(len(uri))]   # hold ALL results
            res.case({"crystal": cr.to_json(), "order": order, "explicit": ops is not None}, len(uri) >= 2,
                     sample={"crystal": cr.describe(), "order": order, "explicit_ops": ops is not None,
                             "n_unique_rotations": len(uri), "mask": mask is not None})
            res.count(f"order{order}")
            res.count("caller_ops" if ops is not None else "spglib_ops")
            res.count("masked" if mask is not None else "unmasked")
            if len(all_r) != len(np.asarray(reps._permutations)):
                res.fail("number of operations differs", impl=len(reps._permutations), model=len(all_r))
                continue
            L = cr.lattice
            for i, u in enumerate(uri):
                perm = ph.atom_perm_of_op(cr, all_r[u], all_t[u])
                if perm is None:
                    res.fail("operation is not a symmetry of the generated crystal (generator defect)", input=cr.to_json())
                    break
                m = drv.ask({"op": "sigma_rep", "N": N, "n": order, "perm": [int(x) for x in perm],
                             "mask": None if mask is None else [int(b) for b in mask]})
                if [int(x) for x in held[i]] != m:
                    res.fail(f"get_sigma{order}_rep({i}) is not sigma of the atom permutation of unique rotation {i}",
                             input={"crystal": cr.to_json(), "order": order, "i": i, "explicit_ops": ops is not None},
                             impl=[int(x) for x in held[i]][:12], model=m[:12])
                    break
                rc = ph.cart_rotation(cr, all_r[u])
                K = rc
                for _ in range(order - 1):
                    K = np.kron(rc, K)
                R = reps.r_reps[i]
                R = R.toarray() if hasattr(R, "toarray") else np.asarray(R)
                if R.shape != K.shape or float(np.abs(R - K).max()) > 1e-9:
                    res.fail(f"r_reps[{i}] is not the {order}-fold Kronecker power of the Cartesian rotation",
                             input={"crystal": cr.to_json(), "order": order, "i": i})
                    break
    return res
