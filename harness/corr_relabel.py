"""Correspondence for the relabelling model (Model/Relabel.lean, theorems of Props/C10.lean).

For a generated crystal and a random permutation pi of its atoms the REAL library is run on both descriptions:
  (1) the set of translation permutations it finds for the re-ordered crystal must be the set of rows of the model's
      `Cell.relabel pi` applied to the translation permutations of the original crystal (the rows may come in another
      order: `partition_depends_only_on_the_set_of_translations`), the model's `relabelTuple` is the index map,
      the model's relabelled distance-rank matrix is the rank matrix of the re-ordered crystal;
  (2) the conclusion of `components_equivariant_under_redescription` is observed on the real `c_pt` matrices:
      pulled back to full tensor elements through the real `get_lat_trans_decompr_indices*`, the two partitions
      (and the sets of eliminated elements) correspond under pi.
Exact integer comparison."""
from __future__ import annotations

import numpy as np

from .common import Result, Timer
from .gen import Crystal, crystal


def _trans_perms(cr):
    from symfc.basis_sets import FCBasisSetO2
    return np.asarray(FCBasisSetO2(cr.atoms()).translation_permutations)


def _rank_matrix(cr, cutoff, vals=None):
    """integer ranks of the minimum-image distances as the real FCCutoff computes them (ranks w.r.t. `vals`, the
    sorted distinct distances of the FIRST description, so that both descriptions are ranked on one scale)"""
    from symfc.utils.cutoff_tools import FCCutoff
    fc = FCCutoff(cr.atoms(), cutoff=cutoff)
    d = np.asarray(fc.distances)
    if vals is None:
        vals = np.unique(np.round(d, 6))
    rk = np.abs(d[:, :, None] - vals[None, None, :]).argmin(axis=2)
    off = float(np.abs(vals[rk] - d).max())
    return fc, rk, d, vals, off


def _labels_full(order, tp, fc_cutoff):
    """partition of the full tensor elements induced by the real c_pt: label per full element (-1 = eliminated)"""
    import importlib
    pt = importlib.import_module(f"symfc.utils.permutation_tools_O{order}")
    ut = importlib.import_module(f"symfc.utils.utils_O{order}")
    if order == 2:
        atomic = ut._get_atomic_lat_trans_decompr_indices(tp)
        decompr = ut.get_lat_trans_decompr_indices(tp)
        c_pt = pt.compr_permutation_lat_trans_O2(tp, atomic_decompr_idx=atomic, fc_cutoff=fc_cutoff)
    else:
        atomic = getattr(ut, f"get_atomic_lat_trans_decompr_indices_O{order}")(tp)
        decompr = getattr(ut, f"get_lat_trans_decompr_indices_O{order}")(tp)
        c_pt = getattr(pt, f"compr_permutation_lat_trans_O{order}")(tp, atomic_decompr_idx=atomic, fc_cutoff=fc_cutoff)
    c = c_pt.tocsr()
    lab = np.full(c.shape[0], -1, dtype=np.int64)
    rows, cols = c.nonzero()
    lab[rows] = cols
    return lab[np.asarray(decompr)]


def _canon(lab):
    """canonical form of a partition: every label replaced by the first position where it occurs"""
    out = np.full(len(lab), -1, dtype=np.int64)
    first = {}
    for i, v in enumerate(lab.tolist()):
        if v < 0:
            continue
        out[i] = first.setdefault(v, i)
    return out


def corr_relabel(rng, drv, n_cases=8, max_N=(6, 4, 3)) -> Result:
    res = Result("relabel", "correspondence")
    with Timer(res):
        for k in range(n_cases):
            order = (2, 3, 2, 3, 4)[k % 5]
            cr = crystal(rng, max_N=max_N[order - 2])
            N = len(cr.numbers)
            pi = list(range(N))
            rng.shuffle(pi)                      # old atom i becomes new atom pi[i]
            piinv = [0] * N
            for i, p in enumerate(pi):
                piinv[p] = i
            cr2 = Crystal(cr.name, cr.lattice, cr.positions[piinv], cr.numbers[piinv], cr.n_lp_expected, {})
            tp = _trans_perms(cr)
            tp2 = _trans_perms(cr2)
            use_cut = rng.random() < 0.6
            cutv = None
            if use_cut:
                _, _, d0, _, _ = _rank_matrix(cr, 1.0)
                vals = np.unique(np.round(d0[d0 > 1e-6], 6))
                if len(vals) >= 2:
                    i = rng.randrange(1, len(vals))
                    cutv = float((vals[i - 1] + vals[i]) / 2)
            n_t = min(40, (3 * N) ** order)
            tuples = [[rng.randrange(3 * N) for _ in range(order)] for _ in range(n_t)]
            req = {"op": "relabel", "N": N, "tp": tp.tolist(), "pi": pi, "piinv": piinv, "tuples": tuples}
            rk = rk2 = None
            if cutv is not None:
                fc1, rk, _, vals1, _ = _rank_matrix(cr, cutv)
                fc2, rk2, _, _, off = _rank_matrix(cr2, cutv, vals1)
                if off > 1e-6:
                    res.fail("a distance of the re-ordered crystal does not occur in the original one", input=req,
                             impl=off)
                    continue
                req["cut"] = {"dist": rk.tolist(), "cutoff": 0}
            else:
                fc1 = fc2 = None
            m = drv.ask(req)
            res.case(req, tp.shape[0] >= 2 and pi != list(range(N)),
                     sample={"crystal": cr.describe(), "pi": pi, "order": order, "cutoff": cutv})
            res.count(f"order{order}")
            res.count("cutoff" if cutv is not None else "no_cutoff")
            res.count(f"nlp{tp.shape[0]}")
            if not m["ok"]:
                res.fail("model rejects a valid relabelling", input=req)
                continue
            rows_m = sorted(map(tuple, m["tp"]))
            rows_r = sorted(map(tuple, tp2.tolist()))
            if rows_m != rows_r:
                res.fail("translation permutations of the re-ordered crystal are not the relabelled ones",
                         input=req, impl=rows_r, model=rows_m)
                continue
            if tuple(tp2[0].tolist()) != tuple(range(N)):
                res.fail("first translation of the re-ordered crystal is not the identity", input=req, impl=tp2[0].tolist())
            if cutv is not None and m["dist"] != rk2.tolist():
                res.fail("distance ranks of the re-ordered crystal are not the relabelled ones", input=req,
                         impl=rk2.tolist(), model=m["dist"])
                continue
            # (2) the theorem's conclusion on the real code
            lab1 = _labels_full(order, tp, fc1)
            lab2 = _labels_full(order, tp2, fc2)
            n3 = 3 * N
            ent = np.arange(n3)
            rel = 3 * np.asarray(pi)[ent // 3] + ent % 3          # relabelEntry
            # the model's tuple map is this entry map
            for t, t2 in zip(tuples, m["tuples"]):
                if [int(rel[e]) for e in t] != t2:
                    res.fail("relabelTuple differs from the entry map", input=req, impl=[int(rel[e]) for e in t], model=t2)
                    break
            grids = np.meshgrid(*([ent] * order), indexing="ij")
            # symfc's full layout: atoms first, then Cartesian components (N..N3..3)
            at_old = np.zeros_like(grids[0]); at_new = np.zeros_like(grids[0]); ca = np.zeros_like(grids[0])
            for g in grids:
                at_old = at_old * N + g // 3
                at_new = at_new * N + rel[g] // 3
                ca = ca * 3 + g % 3
            flat_old = at_old * 3 ** order + ca
            flat_new = at_new * 3 ** order + ca
            fo, fn = flat_old.ravel(), flat_new.ravel()
            l1 = lab1[fo]
            l2 = lab2[fn]
            if not np.array_equal(l1 < 0, l2 < 0):
                bad = int(np.nonzero((l1 < 0) != (l2 < 0))[0][0])
                res.fail("eliminated elements of the two descriptions do not correspond", input=req,
                         impl={"element": int(fo[bad]), "old_label": int(l1[bad]), "new_label": int(l2[bad])})
                continue
            if not np.array_equal(_canon(l1), _canon(l2)):
                res.fail("c_pt partitions of the two descriptions do not correspond under the relabelling", input=req)
    return res
