"""Correspondence: FCCutoff._calc_distances (real code) vs Model/Dist.lean `dist2Matrix` on integer lattices and grid
positions (so that every squared distance is an exact integer in units of 1/S^2). The Niggli reduction (spglib) is
trusted: the harness calls `spglib.niggli_reduce` exactly as the library does and hands the reduced basis (as its
integer Gram matrix) and the transformed positions to the model."""
from __future__ import annotations

import numpy as np

from .common import Result, Timer

S_GRID = 8


def _random_lattice(rng):
    while True:
        L = np.array([[rng.randint(-3, 5) for _ in range(3)] for _ in range(3)], dtype=int)
        L += np.diag([rng.randint(3, 6) for _ in range(3)])
        if abs(round(np.linalg.det(L))) >= 20:
            return L


def corr_dist(rng, drv, n_cases=20) -> Result:
    import spglib
    from symfc.utils.cutoff_tools import FCCutoff
    from symfc.utils.utils import SymfcAtoms
    res = Result("min_image_distances", "correspondence")
    with Timer(res):
        for k in range(n_cases):
            L = _random_lattice(rng) if k % 4 else np.diag([rng.randint(3, 7) for _ in range(3)])
            n = rng.randint(2, 6)
            pts = set()
            while len(pts) < n:
                pts.add(tuple(rng.randint(0, S_GRID - 1) for _ in range(3)))
            P = np.array(sorted(pts), dtype=int)
            # the same atoms written with integer offsets (coordinates outside [0, 1))
            P = P + S_GRID * np.array([[rng.choice([0, 0, 1, -1, 2]) for _ in range(3)] for _ in range(n)])
            at = SymfcAtoms(cell=L.astype(float), scaled_positions=P / float(S_GRID), numbers=[14] * n)
            fc = FCCutoff(at, cutoff=1.0)
            d = np.asarray(fc.distances)
            red = spglib.niggli_reduce(L.astype(float))
            Bi = np.rint(red).astype(int)
            tm_f = L @ np.linalg.inv(red)
            tm = np.rint(tm_f).astype(int)
            if np.abs(red - Bi).max() > 1e-8 or np.abs(tm_f - tm).max() > 1e-8:
                res.count("non_integer_reduction_skipped")
                continue
            G = (Bi @ Bi.T).tolist()
            P2 = (P @ tm).tolist()
            req = {"op": "dist2", "S": S_GRID, "G": G, "positions": P2}
            m = drv.ask(req)
            w = drv.ask({"op": "dist_window", "S": S_GRID, "G": G, "positions": P2})
            # the decidable hypothesis of `computed_nearness_satisfies_the_cutoff_hypotheses` on this real input
            res.count("window7_sufficient" if w["window7"] else "window7_NOT_sufficient")
            res.count("coordinate_on_rint_boundary" if not w["no_boundary"] else "no_boundary_coordinate")
            res.case(req, True, sample={"lattice": L.tolist(), "n_atoms": n, "reduced_is_input": bool(np.array_equal(Bi, L))})
            res.count("reduction_changes_basis" if not np.array_equal(Bi, L) else "already_reduced")
            res.count(f"N{n}")
            real2 = (d * d) * (S_GRID ** 2)
            r_int = np.rint(real2).astype(np.int64)
            if np.abs(real2 - r_int).max() > 1e-6 * max(1.0, float(real2.max())):
                res.fail("squared distance is not an integer multiple of 1/S^2 (harness assumption violated)", input=req)
                continue
            if r_int.tolist() != m:
                bad = np.argwhere(r_int != np.array(m))[:3].tolist()
                res.fail("minimum-image distances differ from the model", input=req, first_diff=bad,
                         impl=[int(r_int[i, j]) for i, j in bad], model=[m[i][j] for i, j in bad])
    return res
