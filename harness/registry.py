"""Which theorems, correspondence checks and oracles decide which property."""
from __future__ import annotations

import numpy as np

from . import corr_api, corr_dist, corr_eig, corr_index, corr_relabel, corr_sgperm, corr_stages
from . import oracles as O
from .gen import crystal

KERNELS = {
    "eigh": "numpy.linalg.eigh / LAPACK syevr: orthonormal eigenvectors, isclose(e,1) separates eigenvalue 1 (modelled, not verified)",
    "posv": "LAPACK posv: info = 0 => A x = b; info != 0 => x untouched (modelled, not verified)",
    "numpy": "numpy/scipy semantics: fancy assignment keeps the last value for repeated indices, connected_components "
             "labelling, sparse products, reshape order (validated by correspondence, not verified)",
    "spglib": "spglib get_symmetry / niggli_reduce (modelled, not verified)",
    "float": "IEEE-754: theorems are over exact fields/integers; 'to floating-point accuracy' is observed by the oracle, not proved",
}


# ------------------------------------------------------------------------------------------------ oracle wrappers
def o_basis(rng, n=6, which=("perm", "spg", "sum", "ortho", "compact"), max_N=(8, 5, 4), orders=(2, 3, 4), min_nlp=1,
            hooks=None, explicit_ops=0.0, protos=None, round_decimals=None, with_cutoff=True):
    def gen():
        for inp in O.gen_basis_inputs(rng, n, max_N=max_N, orders=orders, min_nlp=min_nlp, protos=protos,
                                      round_decimals=round_decimals, with_cutoff=with_cutoff):
            if hooks:
                inp["hooks"] = hooks
            if rng.random() < explicit_ops:
                inp["explicit_ops"] = rng.randrange(1000)
            yield inp
    return O.run_oracle("basis_invariants", gen(), which=which,
                        nontrivial=lambda i: i["crystal"].n_lp_expected >= 2 or len(i["crystal"].numbers) >= 2)


def o_basis_multilattice(rng, n=4, order=4, dets=(4, 6, 8, 9), which=("perm",)):
    """one-atom triclinic cells with MANY lattice points (all Hermite normal forms of the given determinants, shuffled
    atom order): where orbit linking across translated copies of a combination matters (finding F2 class)"""
    from .gen import build_supercell, hnf_matrices, random_triclinic
    def gen():
        for k in range(n):
            L, B, Z = random_triclinic(rng, 1)
            det = dets[k % len(dets)]
            M = rng.choice(hnf_matrices(det))
            cr = build_supercell("tric1", L, B, Z, M, rng=rng, shuffle=rng.random() < 0.5)
            yield {"crystal": cr, "orders": [order], "cutoff": None}
    return O.run_oracle("basis_invariants", gen(), which=which)


def o_basis_o1(rng, n=8, max_N=12):
    def gen():
        for k in range(n):
            inp = {"crystal": crystal(rng, max_N=max_N, min_nlp=2 if k % 2 else 1), "orders": [1]}
            if k % 2:
                inp["explicit_ops"] = rng.randrange(10 ** 6)      # caller-supplied operations, reordered
            elif rng.random() < 0.5 and len(inp["crystal"].numbers) >= 2:
                mk = [rng.randint(0, 1) for _ in inp["crystal"].numbers]
                if 0 < sum(mk) < len(mk):
                    inp["marks"] = mk                             # caller-supplied operations of a subgroup
            yield inp
    return O.run_oracle("basis_o1", gen())


def o_completeness(rng, n=6, max_N=(4, 3, 2), with_cutoff=False, orders=(2, 3, 4), hooks=None, protos=None,
                   always_cutoff=False):
    def gen():
        for k in range(n):
            order = orders[k % len(orders)]
            cr = crystal(rng, max_N=max_N[order - 2], protos=protos)
            inp = {"crystal": cr, "orders": [order], "cutoff": None}
            if hooks:
                inp["hooks"] = dict(hooks)
                if "eig_threshold" in hooks:
                    inp["hooks"]["eig_target"] = rng.randint(3, 7)
                if "perm_nbatch" in hooks:
                    inp["hooks"]["perm_nbatch"] = rng.choice([2, 3, 4, 5, 7])
            if with_cutoff and (k % 2 or always_cutoff):
                from . import physics as ph
                d = ph.min_image_distances(cr)
                vals = np.unique(np.round(d[d > 1e-6], 6))
                if len(vals) > 1:
                    i = rng.randrange(len(vals) - 1)
                    inp["cutoff"] = {str(order): float((vals[i] + vals[i + 1]) / 2)}
            yield inp
    return O.run_oracle("completeness", gen())


def o_fit(name):
    def f(rng, n=6, max_N=(6, 4, 3), combos=None, confine=False, amps=None):
        def gen():
            for inp in O.gen_fit_inputs(rng, n, max_N=max_N, combos=combos):
                if amps:
                    inp["amp"] = rng.choice(list(amps))
                    yield inp
                    continue
                if confine and rng.random() < 0.35:
                    # under-determined data (the library may fail loudly; if it answers, the answer must be a minimiser):
                    # displacements along x only, or fewer equations than unknowns; also at small amplitudes, where
                    # the higher-order columns of the design matrix are weak
                    if rng.random() < 0.6:
                        inp["confine"] = True
                    else:
                        inp["n_snap"] = rng.choice([1, 2, 3])
                    inp["amp"] = rng.choice([0.05, 0.01, 0.003])
                elif confine and rng.random() < 0.2:
                    # well-determined data at very small amplitudes (the high-order columns of a joint fit are then
                    # orders of magnitude weaker than the low-order ones; the answer must still be a minimiser)
                    inp["amp"] = rng.choice([1e-4, 3e-5])
                elif rng.random() < 0.45:
                    inp["freeze_atom"] = rng.randrange(64)
                    inp["n_snap"] = int(inp["n_snap"]) * 3          # still (usually) determined
                yield inp
        return O.run_oracle(name, gen())
    f.__name__ = "o_" + name
    return f


def o_solver_batching(rng, n=6):
    def gen():
        for inp in O.gen_solver_reuse_inputs(rng, n):
            inp["sequence"] = inp["sequence"][:1]
            inp["reads"] = inp["reads"][:1]
            inp["batch_sizes"] = [rng.choice([1, 2, 3, 4, 7, 13, 59, 61])]
            inp["n_snap"] = rng.choice([60, 31, 17])
            yield inp
    return O.run_oracle("solver_reuse", gen())


def o_cutoff(rng, n=3, max_N=(6, 4, 3)):
    def gen():
        for k in range(n):
            order = (2, 3, 4)[k % 3]
            # half of the cases: several inequivalent atoms (neighbour counts differ from atom to atom)
            protos = ["mono", "wurtzite", "tetragonal2", "ortho_inv", "cscl", "rocksalt_prim"] if rng.random() < 0.5 else None
            yield {"crystal": crystal(rng, max_N=max_N[order - 2], protos=protos), "orders": [order],
                   "seed": rng.randrange(10 ** 6)}
    return O.run_oracle("cutoff", gen())


def o_description(rng, n=10, max_N=(6, 4, 3)):
    return O.run_oracle("description", O.gen_description_inputs(rng, n, max_N=max_N))


def o_paths(rng, n=3, max_N=(6, 4, 3)):
    def gen():
        for k in range(n):
            order = (2, 3, 4)[k % 3]
            et = rng.randint(3, 6)
            yield {"crystal": crystal(rng, max_N=max_N[order - 2], min_nlp=rng.choice([1, 2])), "orders": [order],
                   "seed": rng.randrange(10 ** 6),
                   "hook_sets": [{"eig_threshold": 5, "eig_target": et}, {"perm_nbatch": 2},
                                 {"sumrule_nbatch": 64}, {"sumrule_nbatch": rng.choice([2, 3, 5, 7])},
                                 # the verbose branches of the large eigen path (their output is discarded)
                                 {"eig_threshold": 5, "eig_target": et, "_log_level": 1}]}
    return O.run_oracle("paths", gen())


def o_sg(rng, n=8, max_N=12):
    def gen():
        for k in range(n):
            cr_ = crystal(rng, max_N=max_N, min_nlp=rng.choice([1, 2]))
            if rng.random() < 0.4:
                if rng.random() < 0.6:
                    for _ in range(40):     # a supercell whose lattice vectors are mutually orthogonal
                        cr_ = crystal(rng, max_N=max_N, protos=["sc", "cscl", "tetragonal2", "ortho_inv"], allow_random=False)
                        g_ = cr_.lattice @ cr_.lattice.T
                        if np.allclose(g_, np.diag(np.diag(g_))):
                            break
                # the same crystal with its lattice vectors re-listed / re-signed and turned by quarter turns
                from .gen import Crystal as _C
                def sp_():
                    M = np.zeros((3, 3))
                    pp = [0, 1, 2]
                    rng.shuffle(pp)
                    for r_, c_ in enumerate(pp):
                        M[r_, c_] = rng.choice([-1.0, 1.0])
                    return M
                U_, Q_ = sp_(), sp_()
                cr_ = _C(cr_.name, U_ @ cr_.lattice @ Q_.T, cr_.positions @ np.linalg.inv(U_), cr_.numbers,
                         cr_.n_lp_expected, dict(cr_.meta, reoriented=True))
            yield {"crystal": cr_, "subgroup": k % 4 == 3,
                   "op_order": rng.choice(["spglib", "shuffled", "identity_first_shuffled", "by_rotation"]),
                   "seed": rng.randrange(10 ** 6)}
    return O.run_oracle("sg_perms", gen())


def o_eig(rng, n=30):
    return O.run_oracle("eig", O.gen_eig_inputs(rng, n))


def o_large_cell(rng, n=1):
    return O.run_oracle("large_cell", O.gen_large_cell_inputs(rng, n))


def o_process_history(rng, n=4):
    return O.run_oracle("process_history", O.gen_process_history_inputs(rng, n))


def o_solver_reuse(rng, n=6):
    return O.run_oracle("solver_reuse", O.gen_solver_reuse_inputs(rng, n))


def o_solver_full_compact(rng, n=4):
    return O.run_oracle("solver_full_compact", O.gen_solver_full_compact_inputs(rng, n))


def o_caller_ops(rng, n=4):
    return O.run_oracle("caller_ops", O.gen_caller_ops_inputs(rng, n))


def o_history(rng, n=4):
    return O.run_oracle("history", O.gen_history_inputs(rng, n))


def o_ortho_after_fit(rng, n=6):
    def gen():
        combos = [[2], [3], [2, 3], [3, 4], [2, 3, 4], [4]]
        lowsym = ["wurtzite", "tetragonal2", "mono", "hcp", "ortho_inv"]
        for k in range(n):
            od = combos[k % len(combos)]
            cr = crystal(rng, max_N=(6, 4, 4)[max(od) - 2], protos=lowsym)
            yield {"crystal": cr, "orders": od, "data_seed": rng.randrange(10 ** 6), "compact": rng.random() < 0.5}
    return O.run_oracle("ortho_after_fit", gen())


def o_api_invalid(rng, n=4):
    from .corr_api import ORDER_SPECS
    def gen():
        for k in range(n):
            all_orders = k % 2 == 1
            if all_orders:
                cr = crystal(rng, max_N=2, min_N=2)          # small: the object will also hold order-3/4 basis sets
            else:
                cr = crystal(rng, max_N=4, protos=["wurtzite", "tetragonal2", "mono", "hcp"])
            N = len(cr.numbers)
            specs = [list(x) for x in ORDER_SPECS] + [[None, [rng.choice([2, 3, 4])] * rng.randint(2, 3)],
                                                      [None, [2, 3, 3]], [None, [3, 2, 3, 2]], [None, [4, 4]],
                                                      [None, [2, 2, 4]], [None, [2, 4, 4]], [None, [4, 2, 4]],
                                                      [None, [2, 2, 3]], [None, [3, 3, 4]], [None, [2.5]],
                                                      [None, [2, 3, 4, 4]], [None, [2, 5]], [None, [1, 2, 3]]]
            yield {"crystal": cr, "n_snap": 40, "data_seed": rng.randrange(10 ** 6), "specs": specs,
                   "all_orders": all_orders,
                   # trailing-shape mismatches, snapshot-count mismatches (one off; half; double; 3/4 and 4/3, the
                   # ratios for which a flattened reshape of one array by the other's snapshot count still "fits"),
                   # transposed axes, a 2-D array
                   "bad_shapes": [[40, N + 1, 3], [39, N, 3], [40, N, 2], [40, N * 3], [80, N, 3], [20, N, 3],
                                  [30, N, 3], [120, N, 3], [10, N, 3], [40, 3, N], [40, 1, 3 * N]]}
    return O.run_oracle("api_invalid", gen())


# ------------------------------------------------------------------------------------------------ known findings
def known_F1(k, f):
    """F1 (order 4, pattern (p,p,q,q) uncovered). A failure is attributed to F1 only if it concerns order 4 AND is of the
    kind F1 produces: a basis smaller than the admissible space whose span lies INSIDE it, or the frame dependence
    under a rigid rotation. Any other failure of the same property is still a violation."""
    if k["id"] != "F1":
        return False
    what = f.get("what", "")
    det = f.get("detail") or {}
    if "order 4" not in what:
        return False
    if "basis vectors but the admissible space has dimension" in what:
        import re
        m = re.search(r"order 4: (\d+) basis vectors .* dimension (\d+) \(computed span inside reference: dev ([0-9.e+-]+)\)", what)
        # exact signature: the computed space IS the admissible space with every (p,p,q,q) element forced to zero
        return (bool(m) and int(m.group(1)) < int(m.group(2)) and float(m.group(3)) < 1e-7
                and det.get("f1_dim") == det.get("nb") and det.get("f1_span_dev", 1.0) < 1e-7)
    if "rigid rotation" in what:
        return True
    if "admissible force constants (reference space of dimension" in what:
        return det.get("nb", 0) < det.get("dim", 0)
    return False


# ------------------------------------------------------------------------------------------------ corpus
def _tric2():
    import random
    from .gen import build_supercell, random_triclinic
    r = random.Random(777)
    L, B, Z = random_triclinic(r, 2)
    return build_supercell("tric2_corpus", L, B, Z, np.diag([1, 1, 1]))


def corpus_F1_completeness(rng):
    """known finding F1, fixed witness: two-atom P1 cell, order 4"""
    return O.run_oracle("completeness", [{"crystal": _tric2(), "orders": [4], "cutoff": None}])


def corpus_F1_cutoff(rng):
    cr = _tric2()
    from . import physics as ph
    d = ph.min_image_distances(cr)
    return O.run_oracle("completeness", [{"crystal": cr, "orders": [4], "cutoff": {"4": float(d.max() + 1.0)}}])


def corpus_F1_recovery(rng):
    return O.run_oracle("recovery_reference", [{"crystal": _tric2(), "orders": [4], "data_seed": 5}])


def corpus_F1_rotation(rng):
    Q, _ = np.linalg.qr(np.random.default_rng(11).normal(size=(3, 3)))
    return O.run_oracle("description", [{"crystal": _tric2(), "orders": [4], "kind": "rotate", "Q": Q.tolist(), "seed": 0}])


def corpus_F8(rng):
    """fixed witness of F8 (found by search, seed 22): 24x24, spectrum {1 x5, 0.999 x2, 0 x17} — 0.999 is NOT close to 1,
    yet with sub-blocks of 19 rows the block-divided path returns columns outside the unit eigenspace"""
    r = np.random.default_rng(22)
    n = int(r.integers(8, 30))
    Q, _ = np.linalg.qr(r.normal(size=(n, n)))
    k1 = int(r.integers(1, n // 2))
    k2 = int(r.integers(1, 4))
    near = float(r.choice([0.999, 0.9999, 0.99999, 0.99]))
    ev = np.array([1.0] * k1 + [near] * k2 + [0.0] * (n - k1 - k2))
    M = (Q * ev) @ Q.T
    M = (M + M.T) / 2
    tgt = int(r.integers(max(2, n // 2), n))
    assert (n, k1, k2, near, tgt) == (24, 5, 2, 0.999, 19)
    return O.run_oracle("eig", [{"matrix": M.tolist(), "hooks": {"eig_target": tgt}}])


def known_F8(k, f):
    """F8: only the block-divided (large) path, only 'columns are not in the unit eigenspace', and only when the
    mechanism of F8 is present in the input: some diagonal sub-block (of the size the run used) has an eigenvalue that
    np.isclose accepts as 1 although it is measurably below 1 (1e-10 < 1 - lambda <= 1.1e-5)."""
    if k["id"] != "F8":
        return False
    what = f.get("what", "")
    if not (what.startswith("eigsh_projector_sumrule_large: columns are not in the unit eigenspace")
            or what.startswith("eigsh_projector_sumrule_large[verbose]: columns are not in the unit eigenspace")):
        return False
    try:
        inp = f.get("input") or {}
        M = np.array(inp.get("matrix"), dtype=float)
        n = M.shape[0]
        t = (inp.get("hooks") or {}).get("eig_target") or min(max(n // 10, 1000), 3000)
        # the solver works block by connected block; sub-blocks are cut inside each connected block
        import scipy.sparse as sp
        from scipy.sparse.csgraph import connected_components
        _, labels = connected_components(sp.csr_array(M))
        for lab in np.unique(labels):
            ids = np.where(labels == lab)[0]
            B = M[np.ix_(ids, ids)]
            for b in range(0, len(ids), int(t)):
                w = np.linalg.eigvalsh(B[b:b + int(t), b:b + int(t)])
                gap = 1.0 - w
                if np.any((gap > 1e-10) & (gap <= 1.1e-5)):
                    return True
    except Exception:
        return False
    return False


# ------------------------------------------------------------------------------------------------ registry
C = corr_index
S = corr_stages
PROPS = {
    "C01": {
        "lean": "SymfcModel.Props.C01", "gen": ["PermTables", "Cutoff", "PipelineSkel"],
        "corr": [
            {"fn": C.corr_cell_index, "quick": {"n_cases": 30}, "thorough": {"n_cases": 200}},
            {"fn": C.corr_combinations, "quick": {"n_cases": 30}, "thorough": {"n_cases": 240}},
            {"fn": C.corr_perm_stage, "quick": {"n_cases": 60}, "thorough": {"n_cases": 600}},
        ],
        "oracle": [{"name": "basis_perm", "fn": o_basis,
                    "quick": {"n": 15, "which": ("perm",)}, "thorough": {"n": 60, "which": ("perm",), "max_N": (10, 6, 6), "min_nlp": 2},
                    "search": {"n": 30, "which": ("perm",), "max_N": (10, 6, 6)}},
                   {"name": "basis_perm_many_lattice_points_o4", "fn": o_basis_multilattice,
                    "quick": {"n": 4}, "thorough": {"n": 24}, "search": {"n": 16}},
                   {"name": "basis_perm_many_lattice_points_o3", "fn": o_basis_multilattice,
                    "quick": {"n": 3, "order": 3, "dets": (6, 8, 12)}, "thorough": {"n": 12, "order": 3, "dets": (6, 8, 9, 12)},
                    "search": {"n": 8, "order": 3, "dets": (6, 8, 9, 12)}},
                   {"name": "fit_perm", "fn": o_fit("normal_equations"), "quick": {"n": 3}, "thorough": {"n": 12},
                    "search": {"n": 12}},
                   # >= 41 atoms at order 3: the flat tensor index needs more than 16 bits (not in the quick tier: ~15 s a case)
                   {"name": "large_cell_index_width", "fn": o_large_cell, "quick": {"n": 0}, "thorough": {"n": 1},
                    "search": {"n": 2}}],
        "trusted": [KERNELS["numpy"], KERNELS["float"]],
    },
    "C02": {
        "lean": "SymfcModel.Props.C02", "gen": ["SumRule", "PermTables", "SpgRepsSkel", "PipelineSkel"],
        "corr": [{"fn": S.corr_coset, "quick": {"n_cases": 36}, "thorough": {"n_cases": 300}},
                 {"fn": S.corr_spg_reps, "quick": {"n_cases": 12}, "thorough": {"n_cases": 90}},
                 {"fn": C.corr_cell_index, "quick": {"n_cases": 15}, "thorough": {"n_cases": 90}}],
        "oracle": [{"name": "first_order_basis", "fn": o_basis_o1, "quick": {"n": 8}, "thorough": {"n": 40}, "search": {"n": 24}},
                   {"name": "process_and_object_history", "fn": o_process_history, "quick": {"n": 2}, "thorough": {"n": 16}, "search": {"n": 24}},
                   {"name": "basis_spg_explicit_ops", "fn": o_basis,
                    "quick": {"n": 24, "which": ("spg",), "explicit_ops": 1.0, "min_nlp": 2, "max_N": (8, 6, 4),
                              "orders": (2, 2, 3, 2, 3, 4)},
                    "thorough": {"n": 48, "which": ("spg",), "explicit_ops": 1.0, "min_nlp": 2, "max_N": (10, 6, 4)},
                    "search": {"n": 36, "which": ("spg",), "explicit_ops": 1.0, "min_nlp": 2, "max_N": (8, 6, 4)}},
                   # order 4 with caller-supplied operation lists in several orders (cheap: <= 4 atoms)
                   {"name": "basis_spg_explicit_ops_o4", "fn": o_basis,
                    "quick": {"n": 12, "which": ("spg",), "explicit_ops": 1.0, "orders": (4,), "max_N": (8, 6, 4)},
                    "thorough": {"n": 60, "which": ("spg",), "explicit_ops": 1.0, "orders": (4,), "max_N": (8, 6, 4)},
                    "search": {"n": 48, "which": ("spg",), "explicit_ops": 1.0, "orders": (4,), "max_N": (8, 6, 4)}},
                   # hexagonal structures whose coordinates are written with seven decimals (1/3 -> 0.3333333): invariance
                   # under the operations spglib finds at its DEFAULT tolerance
                   {"name": "basis_spg_seven_decimals", "fn": o_basis,
                    "quick": {"n": 6, "which": ("spg",), "orders": (2, 2, 3), "max_N": (12, 6, 4), "min_nlp": 2,
                              "protos": ("hcp", "wurtzite", "hex1"), "round_decimals": 7, "with_cutoff": False},
                    "thorough": {"n": 24, "which": ("spg",), "orders": (2, 2, 3), "max_N": (12, 6, 4), "min_nlp": 2,
                                 "protos": ("hcp", "wurtzite", "hex1"), "round_decimals": 7, "with_cutoff": False},
                    "search": {"n": 18, "which": ("spg",), "orders": (2, 2, 3), "max_N": (12, 6, 4), "min_nlp": 2,
                               "protos": ("hcp", "wurtzite", "hex1"), "round_decimals": 7, "with_cutoff": False}},
                   {"name": "basis_spg", "fn": o_basis, "quick": {"n": 9, "which": ("spg",), "explicit_ops": 0.0, "min_nlp": 1},
                    "thorough": {"n": 48, "which": ("spg",), "max_N": (10, 6, 4), "explicit_ops": 0.5},
                    "search": {"n": 36, "which": ("spg",), "explicit_ops": 0.5}}],
        "trusted": [KERNELS["eigh"], KERNELS["spglib"], KERNELS["float"]],
    },
    "C03": {
        "lean": "SymfcModel.Props.C03", "gen": ["SumRule", "O1", "PipelineSkel"],
        "corr": [{"fn": S.corr_sum_rule, "quick": {"n_cases": 36, "sizes": ((6, 6), (6, 6), (3, 3))},
                  "thorough": {"n_cases": 240, "sizes": ((8, 8), (6, 6), (4, 4))}}],
        "oracle": [{"name": "first_order_basis", "fn": o_basis_o1, "quick": {"n": 8}, "thorough": {"n": 40}, "search": {"n": 24}},
                   {"name": "process_and_object_history", "fn": o_process_history, "quick": {"n": 2}, "thorough": {"n": 16}, "search": {"n": 24}},
                   # several independent atoms of one species that no operation relates
                   {"name": "basis_sum_repeated_species", "fn": o_basis,
                    "quick": {"n": 6, "which": ("sum",), "orders": (2, 3, 2), "max_N": (6, 3, 3),
                              "protos": ("p1_aaa", "p1_aab", "two_orbits")},
                    "thorough": {"n": 18, "which": ("sum",), "orders": (2, 3, 2, 4), "max_N": (9, 6, 3),
                                 "protos": ("p1_aaa", "p1_aab", "two_orbits")},
                    "search": {"n": 12, "which": ("sum",), "orders": (2, 3, 2, 4), "max_N": (6, 3, 3),
                               "protos": ("p1_aaa", "p1_aab", "two_orbits")}},
                   {"name": "basis_sum", "fn": o_basis, "quick": {"n": 12, "which": ("sum",)},
                    "thorough": {"n": 48, "which": ("sum",), "max_N": (10, 6, 4)}, "search": {"n": 30, "which": ("sum",)}},
                   {"name": "basis_sum_large_path", "fn": o_basis,
                    "quick": {"n": 9, "which": ("sum",), "min_nlp": 2, "hooks": {"eig_threshold": 5, "eig_target": 4, "sumrule_nbatch": 64}},
                    "thorough": {"n": 18, "which": ("sum",), "hooks": {"eig_threshold": 5, "eig_target": 4, "sumrule_nbatch": 64}},
                    "search": {"n": 30, "which": ("sum",), "max_N": (8, 6, 4), "min_nlp": 2,
                               "hooks": {"eig_threshold": 5, "eig_target": 4, "sumrule_nbatch": 64}}}],
        "trusted": [KERNELS["eigh"], KERNELS["float"]],
    },
    "C04": {
        "lean": "SymfcModel.Props.C04", "gen": ["PermTables", "Cutoff", "PipelineSkel", "PipelineFlow"],
        "corr": [{"fn": C.corr_perm_stage, "quick": {"n_cases": 36}, "thorough": {"n_cases": 300}},
                 {"fn": C.corr_combinations, "quick": {"n_cases": 18}, "thorough": {"n_cases": 120}}],
        "oracle": [{"name": "first_order_basis", "fn": o_basis_o1, "quick": {"n": 8}, "thorough": {"n": 40}, "search": {"n": 24}},
                   {"name": "completeness", "fn": o_completeness, "quick": {"n": 9, "with_cutoff": True},
                    "thorough": {"n": 36, "with_cutoff": True}, "search": {"n": 24, "with_cutoff": True}},
                   {"name": "completeness_large_eigen_path", "fn": o_completeness,
                    "quick": {"n": 6, "hooks": {"eig_threshold": 5}}, "thorough": {"n": 24, "hooks": {"eig_threshold": 5}},
                    "search": {"n": 24, "hooks": {"eig_threshold": 5}}},
                   {"name": "completeness_cutoff_low_symmetry", "fn": o_completeness,
                    "quick": {"n": 6, "orders": (2, 3), "max_N": (6, 4, 2), "with_cutoff": True, "always_cutoff": True,
                              "protos": ("mono", "tetragonal2", "wurtzite", "hcp", "ortho_inv")},
                    "thorough": {"n": 30, "orders": (2, 3), "max_N": (6, 4, 2), "with_cutoff": True, "always_cutoff": True,
                                 "protos": ("mono", "tetragonal2", "wurtzite", "hcp", "ortho_inv")},
                    "search": {"n": 30, "orders": (3, 2, 3), "max_N": (6, 4, 2), "with_cutoff": True, "always_cutoff": True,
                               "protos": ("mono", "tetragonal2", "wurtzite", "hcp", "ortho_inv")}},
                   {"name": "completeness_batched_permutation_stage", "fn": o_completeness,
                    "quick": {"n": 4, "orders": (3, 4), "hooks": {"perm_nbatch": 3}},
                    "thorough": {"n": 16, "orders": (3, 4), "hooks": {"perm_nbatch": 3}},
                    "search": {"n": 16, "orders": (3, 4), "hooks": {"perm_nbatch": 3}}}],
        "known": known_F1, "known_explains": ("none",),
        "corpus": [{"name": "corpus_F1_order4_two_atom_P1", "fn": corpus_F1_completeness}],
        "trusted": [KERNELS["eigh"], KERNELS["numpy"], KERNELS["float"]],
    },
    "C05": {
        "lean": "SymfcModel.Props.C05", "gen": ["Solver", "SolverState", "ApiDataflow"],
        "corr": [{"fn": S.corr_reshape, "quick": {"n_cases": 36}, "thorough": {"n_cases": 300}},
                 {"fn": S.corr_normal_eq, "quick": {"n_cases": 36}, "thorough": {"n_cases": 240}}],
        "oracle": [{"name": "recovery", "fn": o_fit("recovery"), "quick": {"n": 12}, "thorough": {"n": 48}, "search": {"n": 36}},
                   # order 4 alone on four-atom supercells (two lattice points, images of one primitive atom not contiguous
                   # in the atom list): ~2 s a case
                   {"name": "recovery_order4_four_atoms", "fn": o_fit("recovery"),
                    "quick": {"n": 2, "combos": [(4,)], "max_N": (6, 4, 4)}, "thorough": {"n": 8, "combos": [(4,), (3, 4)], "max_N": (6, 4, 4)},
                    "search": {"n": 8, "combos": [(4,), (4,), (3, 4)], "max_N": (6, 4, 4)}},
                   {"name": "solver_object_reuse", "fn": o_solver_reuse, "quick": {"n": 6}, "thorough": {"n": 36}, "search": {"n": 18}}],
        "known": known_F1,
        "corpus": [{"name": "corpus_F1_reference_fc4_not_recovered", "fn": corpus_F1_recovery}],
        "trusted": [KERNELS["posv"], KERNELS["float"]],
    },
    "C06": {
        "lean": "SymfcModel.Props.C06", "gen": ["Solver", "ApiDataflow"],
        "corr": [{"fn": S.corr_normal_eq, "quick": {"n_cases": 36}, "thorough": {"n_cases": 240}}],
        "oracle": [{"name": "normal_equations", "fn": o_fit("normal_equations"), "quick": {"n": 12, "confine": True},
                    "thorough": {"n": 36, "confine": True}, "search": {"n": 30, "confine": True}},
                   # joint fits at very small displacement amplitudes: the high-order columns are orders of magnitude
                   # weaker than the low-order ones; the answer must still be a minimiser (measured per order)
                   {"name": "normal_equations_small_amplitude", "fn": o_fit("normal_equations"),
                    "quick": {"n": 3, "combos": [(3, 4), (2, 3), (2, 3, 4)], "amps": (1e-4, 3e-5)},
                    "thorough": {"n": 12, "combos": [(3, 4), (2, 3), (2, 3, 4)], "amps": (1e-4, 3e-5, 1e-3)},
                    "search": {"n": 9, "combos": [(3, 4), (2, 3), (2, 3, 4)], "amps": (1e-4, 3e-5)}}],
        "trusted": [KERNELS["posv"], KERNELS["float"]],
    },
    "C07": {
        "lean": "SymfcModel.Props.C07", "gen": ["Cutoff", "ApiCompute", "PipelineSkel"],
        "corr": [{"fn": C.corr_combinations, "quick": {"n_cases": 45}, "thorough": {"n_cases": 300}},
                 {"fn": C.corr_perm_stage, "quick": {"n_cases": 24}, "thorough": {"n_cases": 150}},
                 {"fn": corr_dist.corr_dist, "quick": {"n_cases": 40}, "thorough": {"n_cases": 400}}],
        "oracle": [{"name": "cutoff", "fn": o_cutoff, "quick": {"n": 6}, "thorough": {"n": 30, "max_N": (8, 6, 4)},
                    "search": {"n": 36, "max_N": (8, 6, 4)}}],
        "known": known_F1,
        "corpus": [{"name": "corpus_F1_order4_large_cutoff", "fn": corpus_F1_cutoff}],
        "trusted": [KERNELS["spglib"], KERNELS["float"],
                    "minimum-image distances: the Niggli reduction (spglib) is trusted; the rest of _calc_distances is modelled in exact "
                    "arithmetic (Model/Dist.lean) and compared with the real code on integer lattices; float rounding of the "
                    "distances is observed by the oracle against an exhaustive image search"],
    },
    "C08": {
        "lean": "SymfcModel.Props.C08", "gen": ["PermTables", "PipelineSkel"],
        "corr": [{"fn": C.corr_cell_index, "quick": {"n_cases": 45}, "thorough": {"n_cases": 300}}],
        "oracle": [{"name": "basis_compact", "fn": o_basis, "quick": {"n": 15, "which": ("compact",)},
                    "thorough": {"n": 36, "which": ("compact",), "min_nlp": 2}, "search": {"n": 24, "which": ("compact",)}},
                   {"name": "caller_supplied_operations", "fn": o_caller_ops, "quick": {"n": 4}, "thorough": {"n": 24},
                    "search": {"n": 16}},
                   {"name": "fit_compact", "fn": o_fit("fit_relations"), "quick": {"n": 2}, "thorough": {"n": 12}},
                   {"name": "solver_full_vs_compact", "fn": o_solver_full_compact, "quick": {"n": 6}, "thorough": {"n": 36},
                    "search": {"n": 18}}],
        "trusted": [KERNELS["float"]],
    },
    "C09": {
        "lean": "SymfcModel.Props.C09", "gen": ["Eig", "PipelineSkel"],
        "corr": [{"fn": corr_eig.corr_eigsh_projector, "quick": {"n_cases": 30}, "thorough": {"n_cases": 300}},
                 {"fn": corr_eig.corr_sumrule_plan, "quick": {"n_cases": 20}, "thorough": {"n_cases": 200}}],
        "oracle": [{"name": "first_order_basis", "fn": o_basis_o1, "quick": {"n": 8}, "thorough": {"n": 40}, "search": {"n": 24}},
                   {"name": "basis_ortho", "fn": o_basis, "quick": {"n": 12, "which": ("ortho",)},
                    "thorough": {"n": 36, "which": ("ortho",)}, "search": {"n": 24, "which": ("ortho",)}},
                   {"name": "basis_ortho_large_path", "fn": o_basis,
                    "quick": {"n": 9, "which": ("ortho",), "hooks": {"eig_threshold": 5, "eig_target": 4}},
                    "thorough": {"n": 18, "which": ("ortho",), "hooks": {"eig_threshold": 5, "eig_target": 4}},
                    "search": {"n": 24, "which": ("ortho",), "hooks": {"eig_threshold": 5, "eig_target": 4}}},
                   {"name": "ortho_after_fit", "fn": o_ortho_after_fit, "quick": {"n": 6}, "thorough": {"n": 30},
                    "search": {"n": 24}}],
        "trusted": [KERNELS["eigh"], KERNELS["float"]],
    },
    "C10": {
        "lean": "SymfcModel.Props.C10", "gen": ["PermTables", "Cutoff", "SgPermSkel", "SpgRepsSkel"],
        "corr": [{"fn": C.corr_cell_index, "quick": {"n_cases": 9}, "thorough": {"n_cases": 60}},
                 {"fn": corr_relabel.corr_relabel, "quick": {"n_cases": 20}, "thorough": {"n_cases": 150}},
                 {"fn": corr_dist.corr_dist, "quick": {"n_cases": 20}, "thorough": {"n_cases": 200}},
                 {"fn": C.corr_perm_stage, "quick": {"n_cases": 8}, "thorough": {"n_cases": 40}},
                 {"fn": corr_sgperm.corr_sg_perm, "quick": {"n_cases": 40}, "thorough": {"n_cases": 300}}],
        "oracle": [{"name": "description", "fn": o_description, "quick": {"n": 25}, "thorough": {"n": 100}, "search": {"n": 60}}],
        "known": known_F1,
        "corpus": [{"name": "corpus_F1_order4_rotation", "fn": corpus_F1_rotation}],
        "trusted": [KERNELS["spglib"], KERNELS["float"],
                    "the geometry front end (spglib, tolerance matching of positions, Niggli distances) is not modelled; "
                    "description independence of (trans_perms, operations, near) is tested metamorphically"],
    },
    "C11": {
        "lean": "SymfcModel.Props.C11", "gen": ["PermTables", "Solver", "SumRule", "Eig", "PipelineSkel"],
        "corr": [{"fn": C.corr_perm_stage, "quick": {"n_cases": 12, "force_order": None}, "thorough": {"n_cases": 150}},
                 {"fn": S.corr_sum_rule, "quick": {"n_cases": 24, "sizes": ((6, 6), (6, 6), (3, 3))}, "thorough": {"n_cases": 120}},
                 {"fn": S.corr_normal_eq, "quick": {"n_cases": 9}, "thorough": {"n_cases": 90}}],
        "oracle": [{"name": "paths", "fn": o_paths, "quick": {"n": 6}, "thorough": {"n": 24}, "search": {"n": 18}},
                   {"name": "caller_supplied_operations", "fn": o_caller_ops, "quick": {"n": 4}, "thorough": {"n": 24},
                    "search": {"n": 16}},
                   {"name": "fit_paths", "fn": o_fit("fit_relations"), "quick": {"n": 4}, "thorough": {"n": 18}},
                   # every solver class used directly with a snapshot batch size (also ones that do not divide the number
                   # of snapshots) against the same class with the default: fresh objects, one solve each
                   {"name": "solver_snapshot_batching", "fn": o_solver_batching, "quick": {"n": 6}, "thorough": {"n": 36},
                    "search": {"n": 24}}],
        "trusted": [KERNELS["eigh"], KERNELS["float"], "thread count / BLAS reduction order and log_level are not modelled"],
    },
    "C12": {
        "lean": "SymfcModel.Props.C12", "gen": ["ApiOrders", "ApiDataset", "ApiSolve", "ApiCompute", "ApiAccess", "Solver", "SolverState", "Purity", "PipelineSkel"],
        "corr": [{"fn": corr_api.corr_api, "quick": {"n_hist": 40}, "thorough": {"n_hist": 300, "hist_len": 9}},
                 {"fn": corr_api.corr_api_multi, "quick": {"n_hist": 16}, "thorough": {"n_hist": 120, "hist_len": 12}}],
        "oracle": [{"name": "history", "fn": o_history, "quick": {"n": 8}, "thorough": {"n": 40}, "search": {"n": 24}},
                   {"name": "solver_object_reuse", "fn": o_solver_reuse, "quick": {"n": 6}, "thorough": {"n": 36}, "search": {"n": 18}},
                   {"name": "process_and_object_history", "fn": o_process_history, "quick": {"n": 5}, "thorough": {"n": 40}, "search": {"n": 30}},
                   {"name": "basis_untouched_by_fit", "fn": o_ortho_after_fit, "quick": {"n": 6}, "thorough": {"n": 24},
                    "search": {"n": 18}}],
        "trusted": [KERNELS["eigh"], KERNELS["posv"], "solver results are deterministic functions of their arguments (modelled as tokens)"],
    },
    "C13": {
        "lean": "SymfcModel.Props.C13", "gen": ["Solver", "ApiDataflow"],
        "corr": [{"fn": S.corr_normal_eq, "quick": {"n_cases": 24}, "thorough": {"n_cases": 180}}],
        "oracle": [{"name": "fit_relations", "fn": o_fit("fit_relations"), "quick": {"n": 6}, "thorough": {"n": 24}, "search": {"n": 18}}],
        "trusted": [KERNELS["posv"], KERNELS["float"]],
    },
    "C14": {
        "lean": "SymfcModel.Props.C14", "gen": ["SgPermSkel", "SpgRepsSkel"],
        "corr": [{"fn": C.corr_cell_index, "quick": {"n_cases": 45}, "thorough": {"n_cases": 300}},
                 {"fn": S.corr_coset, "quick": {"n_cases": 18}, "thorough": {"n_cases": 120}},
                 {"fn": corr_sgperm.corr_sg_perm, "quick": {"n_cases": 60}, "thorough": {"n_cases": 600}},
                 {"fn": corr_sgperm.corr_sg_full, "quick": {"n_cases": 60}, "thorough": {"n_cases": 800}},
                 {"fn": S.corr_spg_reps, "quick": {"n_cases": 12}, "thorough": {"n_cases": 90}}],
        "oracle": [{"name": "sg_perms", "fn": o_sg, "quick": {"n": 24}, "thorough": {"n": 120}, "search": {"n": 60}}],
        "trusted": [KERNELS["spglib"], KERNELS["float"], "float tolerance matching of positions (symprec, rounding) is not modelled"],
    },
    "C15": {
        "lean": "SymfcModel.Props.C15", "gen": ["Eig"],
        "corr": [{"fn": corr_eig.corr_eigsh_projector, "quick": {"n_cases": 120}, "thorough": {"n_cases": 800}},
                 {"fn": corr_eig.corr_sumrule_plan, "quick": {"n_cases": 90}, "thorough": {"n_cases": 600}}],
        "oracle": [{"name": "eig", "fn": o_eig, "quick": {"n": 150}, "thorough": {"n": 1000}, "search": {"n": 600}}],
        "known": known_F8,
        "corpus": [{"name": "corpus_F8_large_path_near_unit", "fn": corpus_F8}],
        "trusted": [KERNELS["eigh"], KERNELS["float"]],
    },
    "C16": {
        "lean": "SymfcModel.Props.C16", "gen": ["ApiOrders", "ApiDataset", "ApiSolve", "ApiCompute"],
        "corr": [{"fn": corr_api.corr_check_orders, "rng": False, "quick": {}, "thorough": {}},
                 {"fn": corr_api.corr_api, "quick": {"n_hist": 40}, "thorough": {"n_hist": 300, "hist_len": 9}}],
        "oracle": [{"name": "api_invalid", "fn": o_api_invalid, "quick": {"n": 3}, "thorough": {"n": 16}, "search": {"n": 8}},
                   # rejected requests (missing basis sets, unsupported order lists) at any point of a call sequence
                   {"name": "history", "fn": o_history, "quick": {"n": 4}, "thorough": {"n": 24}, "search": {"n": 16}}],
        "trusted": ["solver calls succeed or raise before returning (modelled)"],
    },
}
