"""Correspondence: index layer, cutoff combinatorics and the permutation stage.
Real symfc functions (in-process) vs the Lean model (Driver.lean), exact integer comparison."""
from __future__ import annotations

import importlib

import numpy as np

from .common import Result, Timer
from .gen import abstract_cell, redistance


def fake_cutoff(cell, cutoff):
    """a real FCCutoff object whose distance matrix is the generated integer matrix
    (so that ties `distance == cutoff` occur exactly)."""
    from symfc.utils.cutoff_tools import FCCutoff
    fc = FCCutoff.__new__(FCCutoff)
    fc._supercell = None
    fc._cutoff = float(cutoff)
    fc._n_atom = int(cell.N)
    fc._distances = cell.dist.astype(float)
    fc._neighbors = None
    fc._nonzero_fc2 = None
    fc._nonzero_fc3 = None
    fc._nonzero_fc4 = None
    return fc


def _decompr_funcs():
    from symfc.utils.utils_O2 import _get_atomic_lat_trans_decompr_indices, get_lat_trans_decompr_indices
    from symfc.utils.utils_O3 import get_atomic_lat_trans_decompr_indices_O3, get_lat_trans_decompr_indices_O3
    from symfc.utils.utils_O4 import get_atomic_lat_trans_decompr_indices_O4, get_lat_trans_decompr_indices_O4
    return {2: (_get_atomic_lat_trans_decompr_indices, get_lat_trans_decompr_indices),
            3: (get_atomic_lat_trans_decompr_indices_O3, get_lat_trans_decompr_indices_O3),
            4: (get_atomic_lat_trans_decompr_indices_O4, get_lat_trans_decompr_indices_O4)}


def corr_cell_index(rng, drv, n_cases=30, max_N=(12, 8, 5)) -> Result:
    """get_indep_atoms_by_lat_trans, *_atomic_lat_trans_decompr_indices*, get_lat_trans_decompr_indices*
    vs Cell.indepAtoms / atomicDecompr (operational) / classIdx (closed form) / latTransDecompr."""
    from symfc.utils.utils import get_indep_atoms_by_lat_trans
    res = Result("cell_index", "correspondence")
    funcs = _decompr_funcs()
    from symfc.utils import utils_O1
    with Timer(res):
        for k in range(max(2, n_cases // 6)):
            c = abstract_cell(rng, max_N=12, with_dist=False)
            j = c.to_json()
            res.case([j, 1], c.n_lp >= 2)
            res.count("order1")
            a1 = utils_O1._get_atomic_lat_trans_decompr_indices(c.tp).tolist()
            m1 = drv.ask({"op": "atomic_decompr", "n": 1, **j})
            if a1 != m1:
                res.fail("atomic_decompr O1 differs", input=j, impl=a1, model=m1)
            l1 = utils_O1.get_lat_trans_decompr_indices(c.tp).tolist()
            m1 = drv.ask({"op": "lat_trans_decompr", "n": 1, **j})
            if l1 != m1:
                res.fail("lat_trans_decompr O1 differs", input=j, impl=l1, model=m1)
        for k in range(n_cases):
            n = (2, 3, 4)[k % 3]
            c = abstract_cell(rng, max_N=max_N[n - 2], with_dist=False)
            j = c.to_json()
            res.case([j, n], c.n_lp >= 2, sample={"cell": c.describe(), "order": n})
            res.count(f"order{n}")
            res.count(f"nlp{c.n_lp}")
            if not drv.ask({"op": "cell_wf", **j}):
                res.fail("generated cell rejected by Cell.wf", input=j)
                continue
            ia = get_indep_atoms_by_lat_trans(c.tp).tolist()
            m = drv.ask({"op": "indep", **j})
            if ia != m:
                res.fail("indep_atoms differ", input=j, impl=ia, model=m)
            ad = funcs[n][0](c.tp).tolist()
            m = drv.ask({"op": "atomic_decompr", "n": n, **j})
            if ad != m:
                res.fail(f"atomic_decompr O{n} differs (operational model)", input=j, impl=ad[:50], model=m[:50])
            m = drv.ask({"op": "class_idx_all", "n": n, **j})
            if ad != m:
                res.fail(f"atomic_decompr O{n} differs from closed form classIdx", input=j, impl=ad[:50], model=m[:50])
            if c.N ** n * 3 ** n <= 20000:
                ld = funcs[n][1](c.tp).tolist()
                m = drv.ask({"op": "lat_trans_decompr", "n": n, **j})
                if ld != m:
                    res.fail(f"lat_trans_decompr O{n} differs", input=j, impl=ld[:50], model=m[:50])
                res.count("lat_trans_checked")
    return res


def corr_combinations(rng, drv, n_cases=30) -> Result:
    """get_entire_combinations, get_combinations (with/without cutoff, indep filter), neighbors,
    nonzero_atomic_indices_fc{2,3,4} vs the model; distance ties at the cutoff are generated on purpose."""
    from symfc.utils.permutation_tools import get_combinations, get_entire_combinations
    from symfc.utils.utils import get_indep_atoms_by_lat_trans
    res = Result("combinations", "correspondence")
    with Timer(res):
        for (n, r) in [(1, 1), (3, 2), (6, 3), (6, 4), (9, 4), (4, 4), (5, 1)]:
            a = get_entire_combinations(n, r).tolist()
            m = drv.ask({"op": "entire_combinations", "n": n, "r": r})
            res.case(["entire", n, r], True)
            if a != m:
                res.fail("get_entire_combinations differs", input=[n, r], impl=a[:20], model=m[:20])
        for k in range(n_cases):
            order = (2, 3, 4)[k % 3]
            c = abstract_cell(rng, max_N=(8, 6, 4)[order - 2], n_shells=4)
            if 3 * c.N < order:
                res.count("skipped_fewer_entries_than_order")
                continue
            cutoff = rng.randint(1, 5)      # equals some distances exactly -> strictness matters
            use_indep = rng.random() < 0.7
            fc = fake_cutoff(c, cutoff)
            j = c.to_json(with_cut=cutoff)
            ties = int((c.dist == cutoff).sum())
            res.case([j, order, use_indep], True,
                     sample={"cell": c.describe(), "order": order, "cutoff": cutoff, "ties_at_cutoff": ties})
            res.count(f"order{order}")
            res.count("with_ties" if ties else "no_ties")
            indep = get_indep_atoms_by_lat_trans(c.tp) if use_indep else None
            try:
                a = np.asarray(get_combinations(c.N, order, fc_cutoff=fc, indep_atoms=indep)).tolist()
            except Exception as e:  # noqa
                a = f"EXC {type(e).__name__}"
            m = drv.ask({"op": "combinations", "order": order, "indep": None if indep is None else indep.tolist(), **j})
            if a == "EXC IndexError" and m == [] and use_indep:
                # np.array([]) is 1-D, `combinations[:, 0]` raises: empty combination list
                res.count("empty_combinations_indexerror")
            elif a != m:
                res.fail(f"get_combinations order {order} with cutoff differs", input=j, indep=use_indep,
                         impl=a if isinstance(a, str) else a[:30], model=m[:30])
            nb = [x.tolist() for x in fc.neighbors]
            m = drv.ask({"op": "neighbors", **j})
            if nb != m:
                res.fail("neighbors differ", input=j, impl=nb, model=m)
            nz = {2: fc.nonzero_atomic_indices_fc2, 3: fc.nonzero_atomic_indices_fc3,
                  4: fc.nonzero_atomic_indices_fc4}[order]().astype(int).tolist()
            m = drv.ask({"op": "nonzero_atomic", "n": order, **j})
            if nz != m:
                res.fail(f"nonzero_atomic_indices_fc{order} differs", input=j, impl=nz[:60], model=m[:60])
            # no cutoff + indep filter
            a = get_combinations(c.N, order, fc_cutoff=None, indep_atoms=indep).tolist()
            jj = {"N": j["N"], "tp": j["tp"]}
            m = drv.ask({"op": "combinations", "order": order, "indep": None if indep is None else indep.tolist(), **jj})
            if a != m:
                res.fail(f"get_combinations order {order} without cutoff differs", input=jj, impl=a[:30], model=m[:30])
    return res


def capture_perm_decompr(order, tp, fc_cutoff=None, n_batch=None):
    """run the REAL compr_permutation_lat_trans_O{n} and capture the pointer array it hands to
    construct_basis_from_perm_decompr_indices (module attribute wrapped in-process)."""
    mod = importlib.import_module(f"symfc.utils.permutation_tools_O{order}")
    fn = getattr(mod, f"compr_permutation_lat_trans_O{order}")
    orig = mod.construct_basis_from_perm_decompr_indices
    cap = {}

    def wrapped(ptr, verbose=False):
        cap["ptr"] = np.array(ptr, copy=True)
        return orig(ptr, verbose=verbose)

    mod.construct_basis_from_perm_decompr_indices = wrapped
    try:
        c_pt = fn(tp, fc_cutoff=fc_cutoff, n_batch=n_batch)
    finally:
        mod.construct_basis_from_perm_decompr_indices = orig
    return cap["ptr"], c_pt


def canonical_labels_from_cpt(c_pt):
    """for each row of c_pt: smallest row index sharing its column, -1 for empty rows; plus value check"""
    coo = c_pt.tocoo()
    n = c_pt.shape[0]
    lab = np.full(n, -1, dtype=int)
    first = {}
    order = np.argsort(coo.row, kind="stable")
    for r, col in zip(coo.row[order], coo.col[order]):
        if col not in first:
            first[col] = r
        lab[r] = first[col]
    cnt = np.bincount(coo.col, minlength=c_pt.shape[1])
    vals_ok = bool(np.allclose(coo.data, 1.0 / np.sqrt(cnt[coo.col]), rtol=1e-13, atol=0))
    one_per_row = bool(len(np.unique(coo.row)) == len(coo.row))
    return lab, vals_ok and one_per_row


def corr_perm_stage(rng, drv, n_cases=24, sizes=((10, 12), (6, 8), (4, 6)), force_order=None) -> Result:
    """compr_permutation_lat_trans_O{2,3,4}: pointer array (exact), component partition of c_pt and its
    values 1/sqrt(count), with/without cutoff, forced n_batch; vs Model.permDecompr + componentLabels."""
    res = Result("perm_stage", "correspondence")
    with Timer(res):
        for k in range(n_cases):
            order = force_order or (2, 3, 4)[k % 3]
            maxN, maxnlp = sizes[order - 2]
            c = abstract_cell(rng, max_N=maxN, max_nlp=maxnlp, n_shells=3)
            use_cut = rng.random() < 0.5
            cutoff = rng.randint(1, 4) if use_cut else None
            nb = None
            if order >= 3 and rng.random() < 0.6:
                nb = rng.choice([2, 3, 5])
            cells = [c]
            if use_cut and k % 2 == 0:
                # a sibling right afterwards: same atoms, same translation permutations, same cutoff VALUE, other
                # distances (the same supercell at another volume) — the result must follow the distances
                cells.append(redistance(rng, c, n_shells=3))
                res.count("sibling_same_tp_other_distances")
            for c in cells:
                fc = fake_cutoff(c, cutoff) if use_cut else None
                j = c.to_json(with_cut=cutoff) if use_cut else c.to_json()
                try:
                    ptr, c_pt = capture_perm_decompr(order, c.tp, fc_cutoff=fc, n_batch=nb)
                    impl = ptr.tolist()
                except (ValueError, IndexError):
                    # zero batch size (`range(0, n, 0)`) or an empty combination list (`combinations[:, 0]`)
                    impl = "ValueError"
                nbj = {} if nb is None else {"n_batch": nb, "n_batch3": nb, "n_batch4": nb}
                m = drv.ask({"op": "perm_decompr", "n": order, "nbatch": nbj, **j})
                res.case([j, order, nb], c.n_lp >= 2,
                         sample={"cell": c.describe(), "order": order, "cutoff": cutoff, "n_batch": nb})
                res.count(f"order{order}")
                res.count("cutoff" if use_cut else "nocutoff")
                res.count("batched" if nb else "unbatched")
                if impl == "ValueError" or m == "ValueError":
                    res.count("zero_batch_size")
                    if impl != m:
                        res.fail("zero batch size handling differs", input=j, order=order, n_batch=nb, impl=str(impl)[:40], model=str(m)[:40])
                    continue
                if impl != m["ptr"]:
                    bad = [i for i, (a, b) in enumerate(zip(impl, m["ptr"])) if a != b][:10]
                    res.fail(f"perm_decompr_idx O{order} differs", input=j, order=order, n_batch=nb,
                             first_diff=bad, impl=[impl[i] for i in bad], model=[m["ptr"][i] for i in bad])
                    continue
                lab, vals_ok = canonical_labels_from_cpt(c_pt)
                if lab.tolist() != m["labels"]:
                    res.fail(f"c_pt partition O{order} differs from model components", input=j, order=order, n_batch=nb)
                if not vals_ok:
                    res.fail(f"c_pt values are not 1/sqrt(count) with one entry per row", input=j, order=order)
    return res
