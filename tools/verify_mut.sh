#!/bin/bash
# verify a seeded change in its own worktree: tests pass with change, demo fails with / passes without
wt=$1
cd $wt
export PYTHONPATH=$wt/src
unset SYMFC_VERIF
git diff --quiet -- src && { echo "$wt: NO CHANGE APPLIED"; exit 1; }
git diff -- src > /tmp/$(basename $wt).check.diff
cmp -s /tmp/$(basename $wt).check.diff MUTATION/patch.diff || echo "$wt: patch.diff differs from worktree diff (using worktree diff)"
res=$(/venv/bin/python -m pytest -q -p no:cacheprovider tests 2>&1 | tail -1)
/venv/bin/python MUTATION/demo.py > /tmp/$(basename $wt).demo_with.log 2>&1; with=$?
# (no `git stash`: the stash is shared by all worktrees of a repository, parallel runs would swap the changes)
git checkout -q -- src
/venv/bin/python MUTATION/demo.py > /tmp/$(basename $wt).demo_without.log 2>&1; without=$?
git apply /tmp/$(basename $wt).check.diff
echo "$wt: pytest[$res] demo_with=$with demo_without=$without"
