#!/bin/bash
# all thorough checks once (run with `vp run -- bash tools/thorough_all.sh`); prints one line per property
cd "$(dirname "$0")/.."
python3 tools/extract.py >/dev/null
(cd lean && lake build SymfcModel SymfcModel.Props >/dev/null 2>&1)
fail=0
for i in 01 02 03 04 05 06 07 08 09 10 11 12 13 14 15 16; do
  /usr/bin/time -f "C$i wall %es maxrss %MkB" python3 check.py C$i --thorough > /tmp/thorough_C$i.log 2>&1
  rc=$?
  tail -2 /tmp/thorough_C$i.log
  [ $rc -ne 0 ] && { fail=$((fail+1)); grep -h "VIOLATION\|broken" /tmp/thorough_C$i.log | head -5; }
done
echo "thorough finished fail=$fail"
