#!/usr/bin/env python3
"""tools/try_mutant.py <dir with patch.diff [demo.py]> [--props C01,C02,..] [--tier quick|thorough] [--baseline]
Apply a seeded change to /repo, run its demonstration and the registered checks, undo it. Never commits."""
import json, os, subprocess, sys, time
from pathlib import Path

ROOT = Path(__file__).resolve().parent.parent
ALL = [f"C{i:02d}" for i in range(1, 17)]


def sh(cmd, **kw):
    return subprocess.run(cmd, shell=True, capture_output=True, text=True, **kw)


def main():
    d = Path(sys.argv[1]).resolve()
    args = sys.argv[2:]
    props = ALL
    tier = "--quick"
    baseline = "--baseline" in args
    for i, a in enumerate(args):
        if a == "--props":
            props = args[i + 1].split(",")
        if a == "--tier":
            tier = "--" + args[i + 1]
    st = sh("git -C /repo status --porcelain").stdout.strip()
    if st:
        print("/repo is not clean:", st)
        return 2
    patch = d / "patch.diff"
    r = sh(f"git -C /repo apply {patch}")
    if r.returncode:
        print("patch does not apply:", r.stderr)
        return 2
    out = {"mutant": str(d), "checks": {}}
    import shutil, tempfile
    ev_backup = tempfile.mkdtemp(prefix="evidence_")
    shutil.copytree(ROOT / "evidence", ev_backup, dirs_exist_ok=True)
    try:
        demo = d / "demo.py"
        if demo.exists():
            env = dict(os.environ, PYTHONPATH="/repo/src")
            env.pop("SYMFC_VERIF", None)
            r = sh(f"/venv/bin/python {demo}", env=env, cwd="/tmp")
            out["demo_exit_with_change"] = r.returncode
            print("demo exit with change:", r.returncode)
        if baseline:
            r = sh(f"/venv/bin/python {ROOT}/tools/baseline.py")
            out["baseline"] = r.stdout.strip().splitlines()[-1] if r.stdout.strip() else r.stderr[-200:]
            print("baseline:", out["baseline"])
        for p in props:
            t = time.time()
            r = sh(f"python3 check.py {p} {tier}", cwd=ROOT)
            lines = [l for l in r.stdout.splitlines() if l.startswith(("VIOLATION", "KNOWN-FINDING"))]
            out["checks"][p] = {"exit": r.returncode, "lines": lines, "wall_s": round(time.time() - t, 1)}
            mark = "DETECTED" if r.returncode == 1 else ("ok" if r.returncode == 0 else f"rc={r.returncode}")
            print(f"  {p}: {mark} {' | '.join(l[:140] for l in lines if l.startswith('VIOLATION'))}")
    finally:
        sh("git -C /repo checkout -- . && git -C /repo clean -fdq src")
        # evidence and generated files must describe the UNCHANGED tree
        shutil.copytree(ev_backup, ROOT / "evidence", dirs_exist_ok=True)
        shutil.rmtree(ev_backup, ignore_errors=True)
        sh(f"python3 {ROOT}/tools/extract.py")
        for f in (ROOT / "replays").glob("*.json"):
            f.unlink()
        st = sh("git -C /repo status --porcelain").stdout.strip()
        print("repo restored:", "clean" if not st else st)
    if demo.exists():
        env = dict(os.environ, PYTHONPATH="/repo/src")
        r = sh(f"/venv/bin/python {demo}", env=env, cwd="/tmp")
        out["demo_exit_without_change"] = r.returncode
        print("demo exit without change:", r.returncode)
    (d / "verif_result.json").write_text(json.dumps(out, indent=1))
    det = [p for p, v in out["checks"].items() if v["exit"] == 1]
    print("detected by:", det)
    return 0


if __name__ == "__main__":
    sys.exit(main())
