#!/usr/bin/env python3
"""Run the repository's pinned baseline (guard OFF) and compare with BASELINE.json stable_pass."""
import json, os, subprocess, sys, tempfile, xml.etree.ElementTree as ET
b = json.load(open("/root/.vp/BASELINE.json"))
env = {k: v for k, v in os.environ.items() if not k.startswith("SYMFC_VERIF")}
with tempfile.TemporaryDirectory() as td:
    xmlf = os.path.join(td, "r.xml")
    cmd = b["cmd"].replace("<file>", xmlf)
    p = subprocess.run(cmd, shell=True, env=env, capture_output=True, text=True)
    passed = set()
    for tc in ET.parse(xmlf).getroot().iter("testcase"):
        if not any(ch.tag in ("failure", "error", "skipped") for ch in tc):
            passed.add(f"{tc.get('classname')}::{tc.get('name')}")
missing = [t for t in b["stable_pass"] if t not in passed]
print(f"stable_pass={len(b['stable_pass'])} passed_now={len(passed)} missing={len(missing)}")
for m in missing:
    print("MISSING", m)
sys.exit(1 if missing else 0)
