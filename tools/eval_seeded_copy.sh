#!/bin/bash
# usage: tools/eval_seeded_copy.sh <seeded dir> [props...]
# Evaluates the registered quick checks against ONE seeded change on scratch copies (a worktree of /repo with the
# patch applied + a copy of /verif under /tmp/ev/<name>), so that several changes can be evaluated in parallel and
# /repo is never touched. Prints one line "<name> detected by: ..." and removes the copies.
src=$(realpath "$1"); shift
name=$(basename "$src")
props=${@:-C01 C02 C03 C04 C05 C06 C07 C08 C09 C10 C11 C12 C13 C14 C15 C16}
here=$(cd "$(dirname "$0")/.." && pwd)
W=/tmp/ev/$name
rm -rf "$W"; mkdir -p "$W"
git -C /repo worktree add -q --detach "$W/repo" HEAD || exit 2
git -C "$W/repo" apply "$src/patch.diff" || { echo "$name: patch does not apply"; git -C /repo worktree remove --force "$W/repo"; exit 2; }
rsync -a --exclude .git --exclude 'replays/*.json' "$here/" "$W/verif/"
cd "$W/verif"
export SYMFC_REPO=$W/repo PYTHONPATH=$W/repo/src
unset SYMFC_VERIF
det=""; inp=""
for p in $props; do
  out=$(python3 check.py $p --quick 2>&1); rc=$?
  if [ $rc -eq 1 ]; then
    det="$det $p"
    n=$(echo "$out" | grep -c '^VIOLATION'); m=$(echo "$out" | grep '^VIOLATION' | grep -c no-failing-input-found)
    [ "$n" -gt "$m" ] && inp="$inp $p"
  elif [ $rc -ne 0 ]; then det="$det $p(rc=$rc)"; fi
done
echo "$name detected by:$det | with failing input:$inp"
cd /; git -C /repo worktree remove --force "$W/repo"; rm -rf "$W"
