#!/usr/bin/env python3
"""Translator: /repo/src/symfc/**.py  (Python AST, no execution)  ->  lean/SymfcModel/Gen/*.lean

Extraction is by *shape*.  Whenever the source no longer has the expected shape the
translator raises Untranslatable("<file>:<line>: ...").  check.py treats that like a broken
proof obligation (search for a failing input on the real code; else no-failing-input-found).

Every extracted item is also recorded (with file:line) in Gen/manifest.json for the evidence.
"""
from __future__ import annotations

import ast
import hashlib
import itertools
import json
import re
import os
import sys
from fractions import Fraction
from pathlib import Path

# one interpreter for every run (ast.unparse output is version dependent): the repository's own /venv python
_PY = "/venv/bin/python"
if __name__ == "__main__" and os.path.exists(_PY) and os.path.realpath(sys.executable) != os.path.realpath(_PY) \
        and not os.environ.get("VERIF_EXTRACT_NO_REEXEC"):
    os.environ["VERIF_EXTRACT_NO_REEXEC"] = "1"
    os.execv(_PY, [_PY, str(Path(__file__).resolve())] + sys.argv[1:])

REPO = Path(os.environ.get("SYMFC_REPO", "/repo"))
SRC = REPO / "src" / "symfc"
HERE = Path(__file__).resolve().parent
GEN = HERE.parent / "lean" / "SymfcModel" / "Gen"


class Untranslatable(Exception):
    pass


ITEMS: list[dict] = []


def rec(file: str, node, what: str, value):
    ITEMS.append({"file": file, "line": getattr(node, "lineno", 0), "what": what, "value": value})


def parse(rel: str) -> ast.Module:
    p = SRC / rel
    try:
        return ast.parse(p.read_text(), filename=str(p))
    except (OSError, SyntaxError) as e:
        raise Untranslatable(f"{rel}: cannot parse: {e}")


def fail(rel, node, msg):
    raise Untranslatable(f"{rel}:{getattr(node, 'lineno', 0)}: {msg}")


def find_func(mod: ast.Module, name: str, rel: str, cls: str | None = None) -> ast.FunctionDef:
    body = mod.body
    if cls is not None:
        for n in mod.body:
            if isinstance(n, ast.ClassDef) and n.name == cls:
                body = n.body
                break
        else:
            raise Untranslatable(f"{rel}: class {cls} not found")
    for n in body:
        if isinstance(n, ast.FunctionDef) and n.name == name:
            return n
    raise Untranslatable(f"{rel}: function {name} not found")


def strip_doc(stmts):
    if stmts and isinstance(stmts[0], ast.Expr) and isinstance(stmts[0].value, ast.Constant) \
            and isinstance(stmts[0].value.value, str):
        return stmts[1:]
    return stmts


def lit(node, rel):
    try:
        return ast.literal_eval(node)
    except Exception:
        fail(rel, node, f"expected literal, got {ast.unparse(node)}")


def lean_list(xs) -> str:
    if isinstance(xs, (list, tuple)):
        return "[" + ", ".join(lean_list(x) for x in xs) + "]"
    if isinstance(xs, bool):
        return "true" if xs else "false"
    if isinstance(xs, str):
        return json.dumps(xs)
    return str(xs)


# ----------------------------------------------------------------------------------------
# G1: permutation tables
# ----------------------------------------------------------------------------------------

def perms_value(node, rel):
    """literal list of lists, or np.array(list(itertools.permutations(range(k))))"""
    src = ast.unparse(node)
    if isinstance(node, ast.List):
        v = lit(node, rel)
        return [list(r) for r in v]
    if isinstance(node, ast.Call) and "itertools.permutations(range(" in src:
        # np.array(list(itertools.permutations(range(4))))
        inner = node
        while isinstance(inner, ast.Call) and not (
            isinstance(inner.func, ast.Attribute) and inner.func.attr == "permutations"
        ):
            if len(inner.args) != 1:
                fail(rel, node, f"unexpected perms expression {src}")
            inner = inner.args[0]
        if not (isinstance(inner, ast.Call) and len(inner.args) == 1):
            fail(rel, node, f"unexpected perms expression {src}")
        rng = inner.args[0]
        if not (isinstance(rng, ast.Call) and getattr(rng.func, "id", None) == "range"
                and len(rng.args) == 1 and isinstance(rng.args[0], ast.Constant)):
            fail(rel, node, f"unexpected perms expression {src}")
        k = rng.args[0].value
        return [list(p) for p in itertools.permutations(range(k))]
    fail(rel, node, f"unexpected perms expression {src}")


def comb_source(node, rel):
    """`np.array([[i, i, ..] for i in range(3 * natom)], dtype=int)` -> 1
       `get_combinations(natom, order=k, fc_cutoff=fc_cutoff[, indep_atoms=indep_atoms])` -> k"""
    src = ast.unparse(node)
    if isinstance(node, ast.Call) and getattr(node.func, "id", None) == "get_combinations":
        kw = {k.arg: k.value for k in node.keywords}
        if "order" not in kw or not isinstance(kw["order"], ast.Constant):
            fail(rel, node, f"get_combinations without literal order: {src}")
        if "fc_cutoff" not in kw or ast.unparse(kw["fc_cutoff"]) != "fc_cutoff":
            fail(rel, node, f"get_combinations must forward fc_cutoff: {src}")
        indep = "indep_atoms" in kw and ast.unparse(kw["indep_atoms"]) == "indep_atoms"
        if len(node.args) != 1 or ast.unparse(node.args[0]) != "natom":
            fail(rel, node, f"get_combinations first arg must be natom: {src}")
        return kw["order"].value, indep
    if isinstance(node, ast.Call) and ast.unparse(node.func) == "np.array" and node.args \
            and isinstance(node.args[0], ast.ListComp):
        lc = node.args[0]
        gen = lc.generators[0]
        if ast.unparse(gen.iter) != "range(3 * natom)" or not isinstance(lc.elt, ast.List):
            fail(rel, node, f"unexpected diagonal combinations: {src}")
        if not all(ast.unparse(e) == ast.unparse(gen.target) for e in lc.elt.elts):
            fail(rel, node, f"unexpected diagonal combinations: {src}")
        return 1, True
    fail(rel, node, f"unexpected combinations source: {src}")


def extract_perm_stages(order: int):
    rel = f"utils/permutation_tools_O{order}.py"
    mod = parse(rel)
    fn = find_func(mod, f"compr_permutation_lat_trans_O{order}", rel)
    stages = []
    cur_comb = None
    cur_perms = None
    for st in strip_doc(fn.body):
        if isinstance(st, ast.Assign) and len(st.targets) == 1 and isinstance(st.targets[0], ast.Name):
            name = st.targets[0].id
            if name == "combinations":
                cur_comb = comb_source(st.value, rel)
            elif name == "perms":
                cur_perms = perms_value(st.value, rel)
            elif name == "perm_decompr_idx" and isinstance(st.value, ast.Call) \
                    and getattr(st.value.func, "id", None) == "_update_perm_decompr_indices":
                call = st.value
                if cur_comb is None or cur_perms is None:
                    fail(rel, st, "stage without combinations/perms")
                pos = [ast.unparse(a) for a in call.args]
                if pos != ["combinations", "perms", "atomic_decompr_idx", "trans_perms", "perm_decompr_idx"]:
                    fail(rel, st, f"unexpected positional args {pos}")
                kw = {k.arg: k.value for k in call.keywords}
                g = kw.get("n_perms_group")
                if not isinstance(g, ast.Constant):
                    fail(rel, st, "n_perms_group must be a literal")
                nb = ast.unparse(kw["n_batch"]) if "n_batch" in kw else "1"
                k, indep = cur_comb
                if not indep:
                    fail(rel, st, "combinations must be restricted to independent first atoms")
                stage = {"combOrder": k, "perms": cur_perms, "nPermsGroup": g.value, "batchKey": nb}
                rec(rel, st, f"O{order} stage {len(stages)}",
                    {"combOrder": k, "n_perms": len(cur_perms), "nPermsGroup": g.value, "n_batch": nb})
                stages.append(stage)
                cur_comb = cur_perms = None
    if not stages:
        fail(rel, fn, "no stages found")
    # final statement must build c_pt from the pointer array
    last = [s for s in fn.body if isinstance(s, ast.Assign) and ast.unparse(s.targets[0]) == "c_pt"]
    if not last or "construct_basis_from_perm_decompr_indices(perm_decompr_idx" not in ast.unparse(last[-1]):
        fail(rel, fn, "c_pt is not constructed from perm_decompr_idx")

    # representative kind + write-loop shape in _update_perm_decompr_indices
    up = find_func(mod, "_update_perm_decompr_indices", rel)
    rep = None
    loop_ok = False
    batch_expr = None
    for node in ast.walk(up):
        if isinstance(node, ast.For) and ast.unparse(node.iter) == "decompr_idx_combs_perm.T":
            tgt = ast.unparse(node.target)
            if len(node.body) == 1 and isinstance(node.body[0], ast.Assign):
                a = node.body[0]
                if ast.unparse(a.targets[0]) == f"perm_decompr_idx[{tgt}]":
                    v = ast.unparse(a.value)
                    if isinstance(a.value, ast.Name):
                        # resolve a hoisted representative: `name = <expr>` inside the batch loop
                        defs = [n for n in ast.walk(up) if isinstance(n, ast.Assign)
                                and ast.unparse(n.targets[0]) == v]
                        if len(defs) != 1:
                            fail(rel, a, f"representative name {v} not uniquely defined")
                        v = ast.unparse(defs[0].value)
                    if v == "decompr_idx_combs_perm[:, 0]":
                        rep = "col0"
                    elif v in ("decompr_idx_combs_perm.min(axis=1)", "np.min(decompr_idx_combs_perm, axis=1)"):
                        rep = "rowMin"
                    else:
                        fail(rel, a, f"unknown representative expression {v}")
                    loop_ok = True
                    rec(rel, a, f"O{order} representative", rep)
        if isinstance(node, ast.For) and "get_batch_slice" in ast.unparse(node.iter):
            batch_expr = ast.unparse(node.iter)
    if not loop_ok:
        fail(rel, up, "write loop `for col in rows.T: ptr[col] = rep` not found")
    if batch_expr != "zip(*get_batch_slice(n_comb, n_comb // n_batch))":
        fail(rel, up, f"unexpected batch expression {batch_expr}")
    src_up = ast.unparse(up)
    want = [
        f"combinations[begin:end][:, permutations].reshape((-1, {order}))",
        "decompr_idx_combs_perm.reshape(-1, n_perms_sym)",
        "n_perms_sym = n_perms // n_perms_group",
        f"atomic_decompr_idx[combs_perm] * {3**order} + combs{'3'*order}",
    ]
    for w in want:
        if w not in src_up:
            fail(rel, up, f"expected `{w}` in _update_perm_decompr_indices")
    # index transform  _N3.._to_N..and3..
    tr = [n for n in mod.body if isinstance(n, ast.FunctionDef) and "_to_" in n.name and "and" in n.name]
    if len(tr) != 1:
        fail(rel, mod, "index transform function not found")
    strides = extract_index_transform(tr[0], rel, order)
    rec(rel, tr[0], f"O{order} index transform strides", strides)
    # default n_batch thresholds
    defaults = {}
    for node in ast.walk(fn):
        if isinstance(node, ast.Assign) and isinstance(node.value, ast.IfExp) and \
                isinstance(node.targets[0], ast.Name) and node.targets[0].id.startswith("n_batch"):
            t = node.value.test
            if isinstance(t, ast.Compare) and ast.unparse(t.left) == "natom" and isinstance(t.ops[0], ast.LtE):
                defaults[node.targets[0].id] = lit(t.comparators[0], rel)
                rec(rel, node, f"O{order} default {node.targets[0].id} threshold", defaults[node.targets[0].id])
    # F6: every batchKey used must be bound on the explicit-n_batch path
    bound_when_explicit = set(["1", "n_batch"])
    for node in fn.body:
        if isinstance(node, ast.Assign) and isinstance(node.targets[0], ast.Name) \
                and node.targets[0].id.startswith("n_batch"):
            bound_when_explicit.add(node.targets[0].id)
        if isinstance(node, ast.If) and ast.unparse(node.test) == "n_batch is None":
            # names bound only under `if n_batch is None` are unbound otherwise, unless else binds
            then_names = {ast.unparse(s.targets[0]) for s in node.body if isinstance(s, ast.Assign)}
            else_names = {ast.unparse(s.targets[0]) for s in node.orelse if isinstance(s, ast.Assign)}
            bound_when_explicit |= (then_names & else_names)
    explicit_ok = all(s["batchKey"] in bound_when_explicit for s in stages)
    rec(rel, fn, f"O{order} explicit n_batch binds every stage batch name", explicit_ok)
    return stages, rep, strides, defaults, explicit_ok


def extract_index_transform(fn: ast.FunctionDef, rel, order):
    """_N3N3N3_to_NNNand333: returns [(atomStride exponent, cartStride)] per position."""
    atom = {}
    cart = {}
    cur = None
    for st in strip_doc(fn.body):
        s = ast.unparse(st)
        if isinstance(st, ast.Assign) and isinstance(st.value, ast.Call) and ast.unparse(st.value.func) == "np.divmod":
            arg = ast.unparse(st.value.args[0])
            if not (arg.startswith("combs[:, ") and ast.unparse(st.value.args[1]) == "3"):
                fail(rel, st, f"unexpected divmod {s}")
            cur = int(arg[len("combs[:, "):-1])
            tg = [ast.unparse(t) for t in st.targets[0].elts]
            if tg[0].startswith("vecN"):
                atom[cur] = "1"
                cart[cur] = "1"
                first = True
            else:
                first = False
            continue
        if isinstance(st, ast.AugAssign):
            tname = ast.unparse(st.target)
            val = ast.unparse(st.value)
            if isinstance(st.op, ast.Mult):
                if tname.startswith("vecN"):
                    atom[cur] = val
                else:
                    cart[cur] = val
            elif isinstance(st.op, ast.Add):
                parts = val.split(" * ")
                mult = parts[1] if len(parts) == 2 else "1"
                if parts[0] not in ("div", "mod"):
                    fail(rel, st, f"unexpected accumulate {s}")
                if tname.startswith("vecN"):
                    atom[cur] = mult
                else:
                    cart[cur] = mult
            continue
        if isinstance(st, ast.Return):
            continue
        fail(rel, st, f"unexpected statement in index transform: {s}")

    def ev(expr):
        return int(eval(expr.replace("N", "7"), {}))  # N := 7 -> exponent

    out = []
    for p in range(order):
        if p not in atom or p not in cart:
            fail(rel, fn, f"position {p} not handled")
        a = ev(atom[p])
        e = {1: 0, 7: 1, 49: 2, 343: 3}.get(a)
        if e is None:
            fail(rel, fn, f"atom stride {atom[p]} not a power of N")
        out.append([e, int(cart[p])])
    return out


def extract_projector_tables(order: int):
    """perms tables of the projector variants in matrix_tools_O{n} (fast-vs-reference, C11)."""
    rel = f"utils/matrix_tools_O{order}.py"
    mod = parse(rel)
    tables = []
    for node in ast.walk(mod):
        if isinstance(node, ast.Assign) and isinstance(node.targets[0], ast.Name) and node.targets[0].id == "perms":
            tables.append(perms_value(node.value, rel))
            rec(rel, node, f"O{order} projector perms table", len(tables[-1]))
    groups = []
    for node in ast.walk(mod):
        if isinstance(node, ast.keyword) and node.arg == "n_perms_group" and isinstance(node.value, ast.Constant):
            groups.append(node.value.value)
    return tables, groups


def gen_perm_tables():
    check_skeletons("PermTables")
    out = ["/- REGENERATED by tools/extract.py from permutation_tools_O{2,3,4}.py and",
           "   matrix_tools_O{2,3,4}.py — do not edit. -/",
           "import SymfcModel.Model.Types", "namespace Symfc.Gen", "open Symfc", ""]
    for order in (2, 3, 4):
        stages, rep, strides, defaults, explicit_ok = extract_perm_stages(order)
        out.append(f"def stagesO{order} : List Stage := [")
        rows = []
        for s in stages:
            rows.append(
                f"  {{ combOrder := {s['combOrder']}, perms := {lean_list(s['perms'])},\n"
                f"    nPermsGroup := {s['nPermsGroup']}, batchKey := {json.dumps(s['batchKey'])} }}")
        out.append(",\n".join(rows))
        out.append("]")
        out.append(f"def repKindO{order} : RepKind := .{rep}")
        out.append(f"/-- (exponent of N for the atom stride, Cartesian stride) per tuple position -/")
        out.append(f"def idxStridesO{order} : List (Nat × Nat) := {lean_list([tuple(x) for x in strides]).replace('[[','[(').replace(']]',')]').replace('], [', '), (')}")
        out.append(f"def batchDefaultsO{order} : List (String × Nat) := [" +
                   ", ".join(f"({json.dumps(k)}, {v})" for k, v in sorted(defaults.items())) + "]")
        out.append(f"def explicitBatchBoundO{order} : Bool := {lean_list(explicit_ok)}")
        tables, groups = extract_projector_tables(order)
        out.append(f"def projTablesO{order} : List (List (List Nat)) := {lean_list(tables)}")
        out.append(f"def projGroupsO{order} : List Nat := {lean_list(groups)}")
        out.append("")
    out.append("end Symfc.Gen")
    return "\n".join(out) + "\n"


# ----------------------------------------------------------------------------------------
# G6: cutoff comparison sites
# ----------------------------------------------------------------------------------------

CMP = {ast.Lt: "lt", ast.LtE: "le", ast.Gt: "gt", ast.GtE: "ge", ast.Eq: "eq", ast.NotEq: "ne"}


def cutoff_compares(fn: ast.FunctionDef, rel):
    """all `... <op> self._cutoff` compares inside fn, in source order"""
    res = []
    for node in ast.walk(fn):
        if isinstance(node, ast.Compare) and len(node.ops) == 1 \
                and ast.unparse(node.comparators[0]) == "self._cutoff":
            res.append((node.lineno, node.col_offset, CMP[type(node.ops[0])], ast.unparse(node.left), node))
    res.sort(key=lambda t: (t[0], t[1]))
    return res


def pair_of(left: str, rel, node):
    # self.distances[combs[:, p] // 3, combs[:, q] // 3]  or  self.distances[combs[:, p], combs[:, q]]
    import re
    m = re.fullmatch(r"self\.distances\[\(?combs\[:, (\d)\](?: // 3)?, combs\[:, (\d)\](?: // 3)?\)?\]", left)
    if not m:
        fail(rel, node, f"unexpected distance test {left}")
    return int(m.group(1)), int(m.group(2))


def idx_compare(fn, rel, var):
    for node in ast.walk(fn):
        if isinstance(node, ast.Compare) and len(node.ops) == 1 and ast.unparse(node.comparators[0]) == var:
            l = ast.unparse(node.left)
            if l in ("3 * j + b", "3 * i + a"):
                return CMP[type(node.ops[0])], node
    fail(rel, fn, f"index filter against {var} not found")


def gen_cutoff():
    check_skeletons("Cutoff")
    rel = "utils/cutoff_tools.py"
    mod = parse(rel)
    cls = "FCCutoff"
    ops = {}
    nb = cutoff_compares(find_func(mod, "neighbors", rel, cls), rel)
    if len(nb) != 1 or nb[0][3] != "self._distances[i]":
        fail(rel, mod, "neighbors: expected one compare of self._distances[i] with self._cutoff")
    ops["neighbors"] = nb[0][2]
    rec(rel, nb[0][4], "neighbors compare", nb[0][2])
    ou = cutoff_compares(find_func(mod, "outsides", rel, cls), rel)
    if len(ou) != 1:
        fail(rel, mod, "outsides: expected one compare")
    ops["outsides"] = ou[0][2]
    rec(rel, ou[0][4], "outsides compare", ou[0][2])
    # neighbours list must be built from neighbors[last // 3]
    for name, key in (("combinations3", "comb3"), ("combinations4", "comb4"),
                      ("nonzero_atomic_indices_fc3", "nonzero3"), ("nonzero_atomic_indices_fc4", "nonzero4")):
        fn = find_func(mod, name, rel, cls)
        cs = cutoff_compares(fn, rel)
        ops[key] = [(*pair_of(c[3], rel, c[4]), c[2]) for c in cs]
        rec(rel, fn, f"{name} pair tests", [[*pair_of(c[3], rel, c[4]), c[2]] for c in cs])
    c2, n2 = idx_compare(find_func(mod, "combinations2", rel, cls), rel, "jb")
    c3, n3 = idx_compare(find_func(mod, "combinations3", rel, cls), rel, "kc")
    c4, n4 = idx_compare(find_func(mod, "combinations4", rel, cls), rel, "ld")
    ops["comb2Idx"], ops["comb3Idx"], ops["comb4Idx"] = c2, c3, c4
    rec(rel, n2, "combinations2 index filter", c2)
    rec(rel, n3, "combinations3 index filter", c3)
    rec(rel, n4, "combinations4 index filter", c4)
    # structural shape checks
    src = {n: ast.unparse(find_func(mod, n, rel, cls)) for n in
           ("combinations2", "combinations3", "combinations4", "combinations3_all", "combinations4_all",
            "nonzero_atomic_indices_fc2", "nonzero_atomic_indices_fc3", "nonzero_atomic_indices_fc4")}
    shape = [
        ("combinations2", "for i in self.neighbors[j] for a in range(3)"),
        ("combinations2", "j = jb // 3"),
        ("combinations2", "for jb in range(3 * self._n_atom)"),
        ("combinations3", "k = kc // 3"),
        ("combinations3", "for j in self.neighbors[k] for b in range(3)"),
        ("combinations3", "itertools.combinations(neighbors_N3, 2)"),
        ("combinations3", "np.hstack([combs, np.full((combs.shape[0], 1), kc)])"),
        ("combinations4", "ll = ld // 3"),
        ("combinations4", "for j in self.neighbors[ll] for b in range(3)"),
        ("combinations4", "itertools.combinations(neighbors_N3, 3)"),
        ("combinations4", "np.hstack([combs, np.full((combs.shape[0], 1), ld)])"),
        ("combinations3_all", "for kc in range(3 * self._n_atom)"),
        ("combinations3_all", "self.combinations3(kc)"),
        ("combinations4_all", "for ld in range(3 * self._n_atom)"),
        ("combinations4_all", "self.combinations4(ld)"),
        ("nonzero_atomic_indices_fc2", "np.array(self.neighbors[i]) + i * self._n_atom"),
        ("nonzero_atomic_indices_fc3", "itertools.product(jlist, jlist)"),
        ("nonzero_atomic_indices_fc3", "combs @ np.array([self._n_atom, 1]) + i * self._n_atom ** 2"),
        ("nonzero_atomic_indices_fc4", "itertools.product(*[jlist, jlist, jlist])"),
        ("nonzero_atomic_indices_fc4", "combs @ np.array([self._n_atom ** 2, self._n_atom, 1])"),
        ("nonzero_atomic_indices_fc4", "ids += i * self._n_atom ** 3"),
    ]
    for fnn, w in shape:
        if w not in src[fnn]:
            fail(rel, mod, f"{fnn}: expected `{w}`")
    # image range of _calc_distances
    cd = find_func(mod, "_calc_distances", rel, cls)
    images = None
    for node in ast.walk(cd):
        if isinstance(node, ast.Call) and ast.unparse(node.func) == "itertools.product":
            a = node.args[0]
            if isinstance(a, ast.Starred):
                v = lit(a.value, rel)
                if len(v) == 3 and v[0] == v[1] == v[2]:
                    images = v[0]
    if images is None:
        fail(rel, cd, "image range not found in _calc_distances")
    rec(rel, cd, "_calc_distances images per axis", images)
    if "match = norms_trial < norms" not in ast.unparse(cd):
        fail(rel, cd, "_calc_distances: minimum update `norms_trial < norms` not found")

    def tl(ts):
        return "[" + ", ".join(f"({p}, {q}, .{c})" for p, q, c in ts) + "]"

    out = ["/- REGENERATED by tools/extract.py from utils/cutoff_tools.py — do not edit. -/",
           "import SymfcModel.Model.Types", "namespace Symfc.Gen", "open Symfc", "",
           "def cutoffOps : CutoffOps := {",
           f"  neighbors := .{ops['neighbors']}, outsides := .{ops['outsides']},",
           f"  comb3 := {tl(ops['comb3'])},", f"  comb4 := {tl(ops['comb4'])},",
           f"  nonzero3 := {tl(ops['nonzero3'])},", f"  nonzero4 := {tl(ops['nonzero4'])},",
           f"  comb2Idx := .{ops['comb2Idx']}, comb3Idx := .{ops['comb3Idx']}, comb4Idx := .{ops['comb4Idx']},",
           f"  images := {lean_list(images)} }}", "", "end Symfc.Gen"]
    return "\n".join(out) + "\n"


# ----------------------------------------------------------------------------------------
# G2: solvers
# ----------------------------------------------------------------------------------------

def mono_of(node, rel, env=None):
    """monomial coef * N^e * nx^f * n^g of an arithmetic AST (Mult / Pow / names N, nx, n / ints)"""
    env = env or {}
    if isinstance(node, ast.Constant) and isinstance(node.value, int):
        return (node.value, 0, 0, 0)
    if isinstance(node, ast.Name):
        if node.id == "N":
            return (1, 1, 0, 0)
        if node.id == "nx":
            return (1, 0, 1, 0)
        if node.id == "n":
            return (1, 0, 0, 1)
        if node.id in env:
            return env[node.id]
        fail(rel, node, f"unknown name {node.id} in monomial")
    if isinstance(node, ast.BinOp) and isinstance(node.op, ast.Mult):
        a = mono_of(node.left, rel, env)
        b = mono_of(node.right, rel, env)
        return (a[0] * b[0], a[1] + b[1], a[2] + b[2], a[3] + b[3])
    if isinstance(node, ast.BinOp) and isinstance(node.op, ast.Pow) and isinstance(node.right, ast.Constant):
        a = mono_of(node.left, rel, env)
        k = node.right.value
        return (a[0] ** k, a[1] * k, a[2] * k, a[3] * k)
    fail(rel, node, f"not a monomial: {ast.unparse(node)}")


def lean_mono(m):
    coef, e, f, g = m
    if f > 1 or g > 0:
        raise Untranslatable(f"monomial with nx^{f} n^{g} unsupported")
    return f"{{ coef := {coef}, nPow := {e}, nx := {'true' if f else 'false'} }}"


def extract_chain(rel, fname):
    mod = parse(rel)
    fn = find_func(mod, fname, rel)
    env = {}
    loop = None
    batch_guarded = None
    for st in strip_doc(fn.body):
        if isinstance(st, ast.Assign) and isinstance(st.targets[0], ast.Name):
            nm = st.targets[0].id
            src = ast.unparse(st.value)
            if nm in ("N3", "NN33", "NNN333", "n3nx"):
                env[nm] = mono_of(st.value, rel, env)
            elif nm == "batch_size":
                batch_guarded = src == "len(mat.row) if len(mat.row) < n_batch else len(mat.row) // n_batch"
                if not batch_guarded:
                    fail(rel, st, f"unexpected batch_size {src}")
        if isinstance(st, ast.Assign) and "get_batch_slice" in ast.unparse(st.value):
            src = ast.unparse(st.value)
            if src == "get_batch_slice(len(mat.row), len(mat.row) // n_batch)":
                batch_guarded = False
            elif src == "get_batch_slice(len(mat.row), batch_size)":
                pass
            else:
                fail(rel, st, f"unexpected batch slice {src}")
        if isinstance(st, ast.For):
            loop = st
    if loop is None or ast.unparse(loop.iter) != "zip(begin_batch, end_batch)":
        fail(rel, fn, "batch loop not found")
    steps = []
    rem_target = None
    cur_seen = False
    have_div = False
    for st in loop.body:
        src = ast.unparse(st)
        if isinstance(st, ast.Assign) and isinstance(st.value, ast.Call) and ast.unparse(st.value.func) == "np.divmod":
            tg = ast.unparse(st.targets[0])
            if tg not in ("div, rem", "(div, rem)"):
                fail(rel, st, f"unexpected divmod targets {tg}")
            a0 = ast.unparse(st.value.args[0])
            if not cur_seen:
                if a0 != "mat.row[begin:end]":
                    fail(rel, st, "first divmod must read mat.row[begin:end]")
                cur_seen = True
            elif a0 != "rem":
                fail(rel, st, "later divmod must read rem")
            cur_div = mono_of(st.value.args[1], rel, env)
            steps.append({"divisor": cur_div, "acts": []})
            continue
        tgt = None
        if isinstance(st, (ast.AugAssign, ast.Assign)):
            t = st.target if isinstance(st, ast.AugAssign) else st.targets[0]
            ts = ast.unparse(t)
            if ts == "mat.row[begin:end]":
                tgt = "row"
            elif ts == "mat.col[begin:end]":
                tgt = "col"
        if tgt is None or not steps:
            fail(rel, st, f"unexpected statement in reshape loop: {src}")
        if isinstance(st, ast.AugAssign) and not isinstance(st.op, ast.Add):
            fail(rel, st, f"unexpected operator in {src}")
        assign = isinstance(st, ast.Assign)
        val = st.value
        # forms: div * M | rem | div * M + rem
        terms = []
        if isinstance(val, ast.BinOp) and isinstance(val.op, ast.Add):
            terms = [val.left, val.right]
        else:
            terms = [val]
        for tm in terms:
            if isinstance(tm, ast.Name) and tm.id == "rem":
                if assign:
                    fail(rel, st, "rem must be accumulated, not assigned")
                rem_target = tgt
            else:
                # div * M : strip the leading `div`
                flat_names = [n.id for n in ast.walk(tm) if isinstance(n, ast.Name)]
                if flat_names.count("div") != 1:
                    fail(rel, st, f"expected exactly one `div` in {ast.unparse(tm)}")
                m = mono_of(tm, rel, {**env, "div": (1, 0, 0, 0)})
                steps[-1]["acts"].append({"target": tgt, "mult": m, "assign": assign})
    if rem_target is None:
        fail(rel, fn, "final remainder is never used")
    out_steps = []
    for stp in steps:
        if len(stp["acts"]) != 1:
            fail(rel, fn, f"each divmod quotient must be used exactly once, got {len(stp['acts'])}")
        a = stp["acts"][0]
        out_steps.append((stp["divisor"], a["target"], a["mult"], a["assign"]))
    # resize
    rs = [n for n in ast.walk(fn) if isinstance(n, ast.Call) and ast.unparse(n.func) == "mat.resize"]
    if len(rs) != 1:
        fail(rel, fn, "mat.resize not found")
    shp = rs[0].args[0]
    if not isinstance(shp, ast.Tuple) or len(shp.elts) != 2:
        fail(rel, rs[0], "unexpected resize shape")
    out_rows = mono_of(shp.elts[0], rel, env)
    out_cols = mono_of(shp.elts[1], rel, env)
    if out_cols != (3, 0, 1, 1):
        fail(rel, rs[0], f"resize columns must be n*3*nx, got {ast.unparse(shp.elts[1])}")
    rec(rel, fn, f"{fname} divmod chain",
        {"steps": [[list(d), t, list(m), a] for d, t, m, a in out_steps], "remTarget": rem_target,
         "zero_batch_guarded": batch_guarded})
    lean = "{ steps := [" + ", ".join(
        f"{{ divisor := {lean_mono(d)}, target := .{t}, mult := {lean_mono(m)}, assign := {'true' if a else 'false'} }}"
        for d, t, m, a in out_steps) + f"], remTarget := .{rem_target}, outRows := {lean_mono(out_rows)} }}"
    return lean, bool(batch_guarded)


def frac_of(node, rel):
    if isinstance(node, ast.Constant) and isinstance(node.value, (int, float)):
        return Fraction(str(node.value))
    if isinstance(node, ast.UnaryOp) and isinstance(node.op, ast.USub):
        return -frac_of(node.operand, rel)
    if isinstance(node, ast.BinOp):
        a, b = frac_of(node.left, rel), frac_of(node.right, rel)
        if isinstance(node.op, ast.Div):
            return a / b
        if isinstance(node.op, ast.Mult):
            return a * b
        if isinstance(node.op, ast.Add):
            return a + b
        if isinstance(node.op, ast.Sub):
            return a - b
    fail(rel, node, f"not a rational constant: {ast.unparse(node)}")


SOLVERS = {
    "O2": [2], "O3": [3], "O4": [4], "O2O3": [2, 3], "O3O4": [3, 4], "O2O3O4": [2, 3, 4],
}
DISP_EXPR = {
    2: ["disps[begin:end]"],
    3: ["set_disps_N3N3(disps[begin:end], sparse=False)", "disps_N3N3"],
    4: ["set_disps_N3N3N3(disps[begin:end], sparse=False)",
        "set_disps_N3N3N3(disps[begin:end], sparse=False, disps_N3N3=disps_N3N3)"],
}
RESHAPE = {2: "reshape_nN33_nx_to_N3_n3nx", 3: "reshape_nNN333_nx_to_N3N3_n3nx", 4: "reshape_nNNN3333_nx_to_N3N3N3_n3nx"}
NPOW = {2: "N", 3: "NN", 4: "NNN"}


# strict statement discipline for the six prepare_normal_equation_* functions: every statement must be of a known kind
# AND sit at the known nesting level (top level / atom-batch loop / snapshot-batch loop inside the atom-batch loop);
# anything else (an extra `if`, a `pop()`, an accumulation moved out of its loop, ...) is UNTRANSLATABLE
FOR_ATOM = "for begin_i, end_i in zip(begin_batch_atom, end_batch_atom):"
FOR_SNAP = "for begin, end in zip(begin_batch, end_batch):"
SOLVER_STMTS = [
    # (regex on the statement head, allowed loop nestings)
    (r"N = N3 // 3$", ["top"]), (r"N3 = disps\.shape\[1\]$", ["top"]),
    (r"NN = N \* N$|NN = N \*\* 2$|NNN = N \*\* 3$", ["top"]),
    (r"n_compr_fc\d = compact_compress_mat_fc\d\.shape\[1\]$", ["top"]),
    (r"n_batch = [N0-9n_comprfc /+*()]+$", ["top"]),
    (r"n_batch = min\(N, n_batch\)$", ["top"]),
    (r"n_batch = min\(N, verif_int\('SYMFC_VERIF_SOLVER_NBATCH', n_batch\)\)$", ["top"]),
    (r"begin_batch_atom, end_batch_atom = get_batch_slice\(N, N // n_batch\)$", ["top"]),
    (r"begin_batch, end_batch = get_batch_slice\(disps\.shape\[0\], batch_size\)$", ["top"]),
    (r"const_fc\d = -?[0-9. /()-]+$", ["top"]),
    (r"compact_compress_mat_fc\d \*= const_fc\d$", ["top-before-loop"]),
    (r"compact_compress_mat_fc\d /= const_fc\d$", ["top-after-loop"]),
    (r"mat\d\d = np\.zeros\(\(n_compr_fc\d, n_compr_fc\d\), dtype=float\)$", ["top-before-loop"]),
    (r"mat\dy = np\.zeros\(n_compr_fc\d, dtype=float\)$", ["top-before-loop"]),
    (re.escape(FOR_ATOM) + "$", ["top"]), (re.escape(FOR_SNAP) + "$", ["atom"]),
    (r"n_atom_batch = end_i - begin_i$", ["atom"]),
    (r"decompr_idx = \(atomic_decompr_idx_fc\d\[begin_i \* N+:end_i \* N+, None\] \* \d+ \+ np\.arange\(\d+\)\[None, :\]\)\.reshape\(-1\)$", ["atom"]),
    (r"compr_mat_fc\d = reshape_\w+\(compact_compress_mat_fc\d\[decompr_idx\], N, n_atom_batch\)$", ["atom"]),
    (r"disps_N3N3 = set_disps_N3N3\(disps\[begin:end\], sparse=False\)$", ["snap"]),
    (r"X\d = dot_product_sparse\(.*compr_mat_fc\d, use_mkl=use_mkl, dense=True\)\.reshape\(\(-1, n_compr_fc\d\)\)$", ["snap"]),
    (r"y = forces\[begin:end, begin_i \* 3:end_i \* 3\]\.reshape\(-1\)$", ["snap"]),
    (r"mat\d\d \+= X\d\.T @ X\d$", ["snap"]), (r"mat\dy \+= X\d\.T @ y$", ["snap"]),
    (r"del X\d$", ["snap"]),
    (r"mat\d\d = compress_eigvecs_fc\d\.T @ mat\d\d @ compress_eigvecs_fc\d$", ["top-after-loop"]),
    (r"mat\dy = compress_eigvecs_fc\d\.T @ mat\dy$", ["top-after-loop"]),
    (r"XTX = .*$", ["top-after-loop"]), (r"XTy = .*$", ["top-after-loop"]),
    (r"return \(XTX, XTy\)$", ["top-after-loop"]),
    (r"if verbose:$", ["top", "atom", "snap"]), (r"print\(.*\)$", ["verbose"]),
    (r"t\w* = time\.time\(\)$", ["top", "atom", "snap"]),
]


def strict_solver_statements(fn, rel):
    def head(st):
        return ast.unparse(st).split("\n")[0] if isinstance(st, (ast.If, ast.For, ast.While, ast.With, ast.Try)) \
            else ast.unparse(st)
    seen_loop = [False]

    def visit(stmts, ctx):
        for st in stmts:
            if isinstance(st, ast.Expr) and isinstance(st.value, ast.Constant) and isinstance(st.value.value, str):
                continue                                   # docstring
            h = head(st)
            ok = False
            for rx, where in SOLVER_STMTS:
                if re.match(rx, h):
                    here = ctx
                    allowed = set()
                    for w in where:
                        if w == "top-before-loop":
                            if ctx == "top" and not seen_loop[0]:
                                allowed.add("top")
                        elif w == "top-after-loop":
                            if ctx == "top" and seen_loop[0]:
                                allowed.add("top")
                        else:
                            allowed.add(w)
                    if here in allowed:
                        ok = True
                        break
            if not ok:
                fail(rel, st, f"{fn.name}: statement `{h[:90]}` is not of a known kind at nesting level `{ctx}`")
            if isinstance(st, ast.For):
                if h == FOR_ATOM:
                    if st.orelse:
                        fail(rel, st, "for/else")
                    visit(st.body, "atom")
                    seen_loop[0] = True
                elif h == FOR_SNAP:
                    if st.orelse:
                        fail(rel, st, "for/else")
                    visit(st.body, "snap")
            elif isinstance(st, ast.If):
                if st.orelse:
                    fail(rel, st, f"{fn.name}: `if verbose` with an else branch")
                visit(st.body, "verbose")
            elif isinstance(st, (ast.While, ast.With, ast.Try)):
                fail(rel, st, f"{fn.name}: unexpected compound statement")
    visit(fn.body, "top")
    rec(rel, fn, f"{fn.name}: every statement is of a known kind at its known nesting level", True)


def extract_solver(name, orders):
    rel = f"solvers/solver_{name}.py"
    mod = parse(rel)
    fn = find_func(mod, f"prepare_normal_equation_{name}", rel)
    strict_solver_statements(fn, rel)
    src = ast.unparse(fn)
    params = [a.arg for a in fn.args.args]
    consts = {}
    for node in ast.walk(fn):
        if isinstance(node, ast.Assign) and isinstance(node.targets[0], ast.Name) \
                and node.targets[0].id.startswith("const_fc"):
            k = int(node.targets[0].id[len("const_fc"):])
            consts[k] = frac_of(node.value, rel)
            rec(rel, node, f"solver {name} const_fc{k}", str(consts[k]))
    if sorted(consts) != orders:
        fail(rel, fn, f"constants for orders {sorted(consts)} but solver fits {orders}")
    six = {}
    for k, c in consts.items():
        v = c * 6
        if abs(float(v) - round(float(v))) > 1e-9:
            fail(rel, fn, f"const_fc{k} = {c}: 6*const is not an integer")
        six[k] = int(round(float(v)))
    want = []
    for k in orders:
        p3 = 3 ** k
        want += [
            f"compact_compress_mat_fc{k} *= const_fc{k}",
            f"compact_compress_mat_fc{k} /= const_fc{k}",
            (f"decompr_idx = (atomic_decompr_idx_fc{k}[begin_i * {NPOW[k]}:end_i * {NPOW[k]}, None] * {p3} + "
             f"np.arange({p3})[None, :]).reshape(-1)"),
            f"compr_mat_fc{k} = {RESHAPE[k]}(compact_compress_mat_fc{k}[decompr_idx], N, n_atom_batch)",
            f"mat{k}y += X{k}.T @ y",
            f"mat{k}y = compress_eigvecs_fc{k}.T @ mat{k}y" if len(orders) > 1 else f"XTy = compress_eigvecs_fc{k}.T @ mat{k}y",
        ]
        if f"compact_compress_mat_fc{k}" not in params:
            fail(rel, fn, f"compact_compress_mat_fc{k} must be a parameter (it is scaled in place)")
        xs = [f"X{k} = dot_product_sparse({d}, compr_mat_fc{k}, use_mkl=use_mkl, dense=True).reshape((-1, n_compr_fc{k}))"
              for d in DISP_EXPR[k]]
        if not any(x in src for x in xs):
            fail(rel, fn, f"design block X{k} has unexpected form")
        for k2 in orders:
            if k2 >= k:
                want.append(f"mat{k}{k2} += X{k}.T @ X{k2}")
                if len(orders) > 1:
                    want.append(f"mat{k}{k2} = compress_eigvecs_fc{k}.T @ mat{k}{k2} @ compress_eigvecs_fc{k2}")
                else:
                    want.append(f"XTX = compress_eigvecs_fc{k}.T @ mat{k}{k2} @ compress_eigvecs_fc{k2}")
    if "\n            disps_N3N3 = " in src and "disps_N3N3 = set_disps_N3N3(disps[begin:end], sparse=False)" not in src:
        fail(rel, fn, "disps_N3N3 has unexpected definition")
    want += [
        "y = forces[begin:end, begin_i * 3:end_i * 3].reshape(-1)",
        "begin_batch_atom, end_batch_atom = get_batch_slice(N, N // n_batch)",
        "begin_batch, end_batch = get_batch_slice(disps.shape[0], batch_size)",
        "for begin_i, end_i in zip(begin_batch_atom, end_batch_atom)",
        "for begin, end in zip(begin_batch, end_batch)",
        "n_atom_batch = end_i - begin_i",
        "N = N3 // 3", "N3 = disps.shape[1]",
    ]
    if len(orders) == 2:
        a, b = orders
        want += [f"XTX = np.block([[mat{a}{a}, mat{a}{b}], [mat{a}{b}.T, mat{b}{b}]])",
                 f"XTy = np.hstack([mat{a}y, mat{b}y])"]
    if len(orders) == 3:
        want += ["XTX = np.block([[mat22, mat23, mat24], [mat23.T, mat33, mat34], [mat24.T, mat34.T, mat44]])",
                 "XTy = np.hstack([mat2y, mat3y, mat4y])"]
    for w in want:
        if w not in src:
            fail(rel, fn, f"expected `{w}` in prepare_normal_equation_{name}")
    # n_batch formula: last plain assignment(s) before get_batch_slice
    nb = [ast.unparse(n.value) for n in fn.body if isinstance(n, ast.Assign)
          and isinstance(n.targets[0], ast.Name) and n.targets[0].id == "n_batch"]
    rec(rel, fn, f"solver {name} n_batch formula", nb)
    if name != "O2" and "min(N, n_batch)" not in nb:
        fail(rel, fn, "n_batch must be clipped by min(N, n_batch)")
    # coefficient split
    run = find_func(mod, f"run_solver_{name}", rel)
    rsrc = ast.unparse(run)
    if "coefs = solve_linear_equation(XTX, XTy)" not in rsrc:
        fail(rel, run, "run_solver must call solve_linear_equation(XTX, XTy)")
    if len(orders) == 2:
        a, b = orders
        if f"coefs_fc{a}, coefs_fc{b} = (coefs[:n_basis_fc{a}], coefs[n_basis_fc{a}:])" not in rsrc \
                or f"n_basis_fc{a} = compress_eigvecs_fc{a}.shape[1]" not in rsrc:
            fail(rel, run, "unexpected coefficient split")
    if len(orders) == 3:
        if ("coefs_fc2, coefs_fc3, coefs_fc4 = (coefs[:n_basis_fc2], coefs[n_basis_fc2:n_basis_fc2 + n_basis_fc3], "
                "coefs[n_basis_fc2 + n_basis_fc3:])") not in rsrc:
            fail(rel, run, "unexpected coefficient split")
    # class: solve passes accessor results; _recover_fcs
    cls = f"FCSolver{name}"
    solve = find_func(mod, "solve", rel, cls)
    ssrc = ast.unparse(solve)
    rec_fn = find_func(mod, "_recover_fcs", rel, cls)
    rsrc2 = ast.unparse(rec_fn)
    for idx, k in enumerate(orders):
        b = f"fc{k}_basis"
        if f"compress_mat_fc{k} = {b}.compact_compression_matrix" not in ssrc:
            fail(rel, solve, f"solve must pass {b}.compact_compression_matrix")
        if f"basis_set_fc{k} = {b}.basis_set" not in ssrc:
            fail(rel, solve, f"solve must pass {b}.basis_set")
        coef = "self._coefs" if len(orders) == 1 else f"self._coefs[{idx}]"
        dims = ", ".join(["-1"] + ["N"] * (k - 1) + ["3"] * k)
        for w in (f"fc{k} = {b}.basis_set @ {coef}",
                  f"fc{k} = np.array((comp_mat_fc{k} @ fc{k}).reshape(({dims})), dtype='double', order='C')",
                  f"comp_mat_fc{k} = {b}.compression_matrix",
                  f"comp_mat_fc{k} = {b}.compact_compression_matrix"):
            if w not in rsrc2:
                fail(rel, rec_fn, f"expected `{w}` in _recover_fcs")
        bsel = "self._basis_set" if len(orders) == 1 else f"self._basis_set[{idx}]"
        if f"{b}: FCBasisSetO{k} = {bsel}" not in rsrc2 or f"{b}: FCBasisSetO{k} = {bsel}" not in ssrc:
            fail(rel, rec_fn, f"basis set {b} must be {bsel}")
    if "f = forces.reshape(n_data, -1)" not in ssrc or "d = displacements.reshape(n_data, -1)" not in ssrc:
        fail(rel, solve, "solve must flatten displacements/forces per snapshot")
    return six, nb


def extract_accessor_fresh():
    """C12.b: `compact_compression_matrix` returns a NEW object (binary expression), `basis_set` is only read."""
    ok = {}
    for k in (2, 3, 4):
        rel = f"basis_sets/basis_sets_O{k}.py"
        mod = parse(rel)
        fn = find_func(mod, "compact_compression_matrix", rel, f"FCBasisSetO{k}")
        rets = [n for n in ast.walk(fn) if isinstance(n, ast.Return)]
        fresh = len(rets) == 1 and isinstance(rets[0].value, ast.BinOp) and \
            ast.unparse(rets[0].value) == "self._n_a_compression_matrix / np.sqrt(n_lp)"
        rec(rel, fn, f"O{k} compact_compression_matrix returns a fresh matrix", fresh)
        ok[k] = fresh
        fn2 = find_func(mod, "compression_matrix", rel, f"FCBasisSetO{k}")
        if "dot_product_sparse(c_trans, self._n_a_compression_matrix" not in ast.unparse(fn2):
            fail(rel, fn2, "compression_matrix must be c_trans @ n_a_compression_matrix")
    return ok


def gen_solver():
    check_skeletons("Solver")
    out = ["/- REGENERATED by tools/extract.py from solvers/solver_*.py, utils/solver_funcs.py — do not edit. -/",
           "import SymfcModel.Model.Types", "namespace Symfc.Gen", "open Symfc", ""]
    guarded = {}
    for k, (rel, fname) in {2: ("solvers/solver_O2.py", RESHAPE[2]), 3: ("solvers/solver_O2O3.py", RESHAPE[3]),
                            4: ("solvers/solver_O2O3O4.py", RESHAPE[4])}.items():
        lean, g = extract_chain(rel, fname)
        guarded[k] = g
        out.append(f"def chainO{k} : Chain :=\n  {lean}")
    out.append("def chainZeroBatchGuarded : List (Nat × Bool) := [" +
               ", ".join(f"({k}, {'true' if g else 'false'})" for k, g in guarded.items()) + "]")
    rows = []
    for name, orders in SOLVERS.items():
        six, nb = extract_solver(name, orders)
        rows.append(f"  ({json.dumps(name)}, [" + ", ".join(f"({k}, {six[k]})" for k in orders) + "])")
    out.append("/-- per solver: (order, 6 × Taylor constant) -/")
    out.append("def solverConst6 : List (String × List (Nat × Int)) := [\n" + ",\n".join(rows) + "]")
    fresh = extract_accessor_fresh()
    out.append("def accessorFresh : List (Nat × Bool) := [" +
               ", ".join(f"({k}, {'true' if v else 'false'})" for k, v in fresh.items()) + "]")
    # solve_linear_equation: is posv's info inspected?
    rel = "utils/solver_funcs.py"
    mod = parse(rel)
    fn = find_func(mod, "solve_linear_equation", rel)
    src = ast.unparse(fn)
    info_checked = False
    for node in ast.walk(fn):
        if isinstance(node, ast.Assign) and isinstance(node.value, ast.Call) and ast.unparse(node.value.func) == "posv":
            tg = node.targets[0]
            if isinstance(tg, ast.Tuple) and len(tg.elts) == 3 and isinstance(tg.elts[2], ast.Name) \
                    and tg.elts[2].id != "_":
                nm = tg.elts[2].id
                for n2 in ast.walk(fn):
                    if isinstance(n2, ast.If) and nm in ast.unparse(n2.test) and \
                            any(isinstance(b, ast.Raise) for b in n2.body):
                        info_checked = True
            if "lower=False" not in ast.unparse(node.value):
                fail(rel, node, "posv must be called with lower=False")
    rec(rel, fn, "solve_linear_equation raises when posv info != 0", info_checked)
    out.append(f"def posvInfoChecked : Bool := {'true' if info_checked else 'false'}")
    fit = ast.unparse(find_func(mod, "fit", rel))
    for w in ("A = np.dot(X.T, X)", "Xy = np.dot(X.T, y)", "coefs = solve_linear_equation(A, Xy)"):
        if w not in fit:
            fail(rel, mod, f"fit: expected `{w}`")
    gbs = ast.unparse(find_func(mod, "get_batch_slice", rel))
    for w in ("begin_batch = list(range(0, n_data, batch_size))", "end_batch = list(begin_batch[1:]) + [n_data]",
              "end_batch = [n_data]", "if len(begin_batch) > 1"):
        if w not in gbs:
            fail(rel, mod, f"get_batch_slice: expected `{w}`")
    out += ["", "end Symfc.Gen"]
    return "\n".join(out) + "\n"


# ----------------------------------------------------------------------------------------
# G2b: the state a solver OBJECT keeps between calls (solver_base.py, solver_O*.py)
# ----------------------------------------------------------------------------------------

SOLVER_FILES = [("O2", "solver_O2.py"), ("O3", "solver_O3.py"), ("O4", "solver_O4.py"), ("O2O3", "solver_O2O3.py"),
                ("O3O4", "solver_O3O4.py"), ("O2O3O4", "solver_O2O3O4.py")]


def _self_attrs(fn):
    """(attributes of `self` read, attributes of `self` written or mutated through a method call / subscript store)"""
    reads, writes = set(), set()
    for n in ast.walk(fn):
        if isinstance(n, ast.Attribute) and isinstance(n.value, ast.Name) and n.value.id == "self":
            (writes if isinstance(n.ctx, (ast.Store, ast.Del)) else reads).add(n.attr)
        if isinstance(n, ast.Subscript) and isinstance(n.ctx, (ast.Store, ast.Del)):
            v = n.value
            if isinstance(v, ast.Attribute) and isinstance(v.value, ast.Name) and v.value.id == "self":
                writes.add(v.attr)
        if isinstance(n, ast.Call) and isinstance(n.func, ast.Attribute) and n.func.attr in (
                "append", "update", "setdefault", "clear", "pop", "extend", "insert", "add", "remove", "sort", "fill",
                "resize", "put", "itemset", "setflags", "__setitem__"):
            v = n.func.value
            if isinstance(v, ast.Attribute) and isinstance(v.value, ast.Name) and v.value.id == "self":
                writes.add(v.attr)
    return reads, writes


def gen_solver_state():
    """For every solver class: which attributes the result accessors (`full_fc`, `compact_fc`, `_recover_fcs`) read
    and write, and which attributes `solve` writes. The model's solver result is a function of (basis sets, last
    dataset) only; that is the case iff the accessors read nothing but `_coefs` and the constructor inputs and write
    nothing, and `solve` writes nothing but `_coefs`."""
    rows = []
    allowed_ctor = {"_basis_set", "_use_mkl", "_log_level", "_natom"}
    base = parse("solvers/solver_base.py")
    bcls = [n for n in base.body if isinstance(n, ast.ClassDef) and n.name == "FCSolverBase"]
    if len(bcls) != 1:
        fail("solvers/solver_base.py", base, "class FCSolverBase expected")
    binit = [m for m in bcls[0].body if isinstance(m, ast.FunctionDef) and m.name == "__init__"]
    if len(binit) != 1:
        fail("solvers/solver_base.py", bcls[0], "FCSolverBase.__init__ expected")
    _, bw = _self_attrs(binit[0])
    rec("solvers/solver_base.py", binit[0], "FCSolverBase.__init__ attributes", sorted(bw))
    if not bw <= allowed_ctor | {"_coefs"}:
        fail("solvers/solver_base.py", binit[0], f"FCSolverBase.__init__ keeps unexpected state {sorted(bw)}")
    for tag, fname in SOLVER_FILES:
        rel = f"solvers/{fname}"
        mod = parse(rel)
        cls = [n for n in mod.body if isinstance(n, ast.ClassDef) and n.name == f"FCSolver{tag}"]
        if len(cls) != 1:
            fail(rel, mod, f"class FCSolver{tag} expected")
        meths = {m.name: m for m in cls[0].body if isinstance(m, ast.FunctionDef)}
        for need in ("solve", "full_fc", "compact_fc", "_recover_fcs"):
            if need not in meths:
                fail(rel, cls[0], f"FCSolver{tag}.{need} expected")
        extra_state = set()
        if "__init__" in meths:
            _, w = _self_attrs(meths["__init__"])
            extra_state = w - allowed_ctor - {"_coefs"}
        acc_reads, acc_writes = set(), set()
        for name in ("full_fc", "compact_fc", "_recover_fcs"):
            r, w = _self_attrs(meths[name])
            acc_reads |= r
            acc_writes |= w
        other = {k: _self_attrs(v) for k, v in meths.items()
                 if k not in ("__init__", "solve", "full_fc", "compact_fc", "_recover_fcs")}
        for k, (r, w) in other.items():
            acc_writes |= w          # any further method that mutates the object is counted as well
        _, solve_writes = _self_attrs(meths["solve"])
        acc_reads -= {"_recover_fcs", "full_fc", "compact_fc"}          # method references
        row = {"solver": tag, "accessorReads": sorted(acc_reads - allowed_ctor), "accessorWrites": sorted(acc_writes),
               "solveWrites": sorted(solve_writes), "extraCtorState": sorted(extra_state)}
        rec(rel, cls[0], f"FCSolver{tag} object state", row)
        rows.append(row)

    def ll(xs):
        return "[" + ", ".join(f'"{x}"' for x in xs) + "]"
    out = ["/- REGENERATED by tools/extract.py from solvers/solver_*.py — do not edit. -/",
           "namespace Symfc.Gen", "",
           "/-- per solver class: (name, attributes read by the result accessors besides the constructor inputs,",
           "    attributes written by the accessors or any other non-solve method, attributes written by `solve`,",
           "    extra attributes created by the constructor) -/",
           "def solverObjectState : List (String × List String × List String × List String × List String) := ["]
    out.append(",\n".join(f'  ("{r["solver"]}", {ll(r["accessorReads"])}, {ll(r["accessorWrites"])}, '
                           f'{ll(r["solveWrites"])}, {ll(r["extraCtorState"])})' for r in rows) + "]")
    out += ["", "end Symfc.Gen"]
    return "\n".join(out) + "\n"


# ----------------------------------------------------------------------------------------
# G3: api_symfc.py
# ----------------------------------------------------------------------------------------

API_HEAD = ["/- REGENERATED by tools/extract.py from api_symfc.py — do not edit. -/",
            "import SymfcModel.Model.Types", "namespace Symfc.Gen", "open Symfc", ""]


def gen_api():
    """aggregator: the four sections are generated (and can fail) separately, so that a change of one API method
    only breaks the obligations that depend on it"""
    return ("/- REGENERATED by tools/extract.py — aggregator of the api_symfc.py sections. -/\n"
            "import SymfcModel.Gen.ApiOrders\nimport SymfcModel.Gen.ApiDataset\n"
            "import SymfcModel.Gen.ApiSolve\nimport SymfcModel.Gen.ApiCompute\nimport SymfcModel.Gen.ApiAccess\n")


def gen_api_orders():
    rel = "api_symfc.py"
    mod = parse(rel)
    cls = "Symfc"
    # ---- _check_orders
    co = find_func(mod, "_check_orders", rel, cls)
    body = strip_doc(co.body)
    if len(body) != 3 or not all(isinstance(b, ast.If) for b in body[:2]) or not isinstance(body[2], ast.Return):
        fail(rel, co, "_check_orders: expected `if both None: raise; if max_order is not None: .. else: ..; return orders`")
    if ast.unparse(body[0].test) != "max_order is None and orders is None" or not isinstance(body[0].body[0], ast.Raise):
        fail(rel, body[0], "_check_orders: first guard must reject missing specification")
    if ast.unparse(body[1].test) != "max_order is not None":
        fail(rel, body[1], "_check_orders: second statement must branch on max_order")
    mo = body[1].body
    if not (len(mo) == 2 and isinstance(mo[0], ast.If) and isinstance(mo[0].body[0], ast.Raise)):
        fail(rel, body[1], "_check_orders: max_order branch shape")
    t = mo[0].test
    if not (isinstance(t, ast.Compare) and ast.unparse(t.left) == "max_order" and isinstance(t.ops[0], ast.NotIn)):
        fail(rel, t, "_check_orders: `max_order not in (...)` expected")
    mo_white = list(lit(t.comparators[0], rel))
    if ast.unparse(mo[1]) != "orders = tuple(list(range(2, max_order + 1)))":
        fail(rel, mo[1], "_check_orders: orders = tuple(list(range(2, max_order + 1))) expected")
    oe = body[1].orelse
    if not (len(oe) == 2 and ast.unparse(oe[0]) == "orders = tuple(sorted(orders))" and isinstance(oe[1], ast.If)
            and isinstance(oe[1].body[0], ast.Raise)):
        fail(rel, body[1], "_check_orders: orders branch shape")
    t2 = oe[1].test
    if not (isinstance(t2, ast.Compare) and ast.unparse(t2.left) == "orders" and isinstance(t2.ops[0], ast.NotIn)):
        fail(rel, t2, "_check_orders: `orders not in [...]` expected")
    o_white = [list(x) for x in lit(t2.comparators[0], rel)]
    if ast.unparse(body[2]) != "return orders":
        fail(rel, body[2], "_check_orders must return orders")
    rec(rel, co, "_check_orders whitelists", {"max_order": mo_white, "orders": o_white})
    return "\n".join(API_HEAD + [f"def maxOrderWhitelist : List Nat := {lean_list(mo_white)}",
                                 f"def ordersWhitelist : List (List Nat) := {lean_list(o_white)}",
                                 "", "end Symfc.Gen"]) + "\n"


def gen_api_dataset():
    rel = "api_symfc.py"
    mod = parse(rel)
    cls = "Symfc"
    # ---- _check_dataset
    cd = find_func(mod, "_check_dataset", rel, cls)
    guards = []
    GMAP = {
        "self._displacements is None": "dispNone",
        "self._forces is None": "forcesNone",
        "self._displacements.shape != self._forces.shape": "shapeMismatch",
        "self._displacements.ndim != 3 or self._displacements.shape[1:] != (len(self._supercell), 3)": "dispShape",
        "self._forces.ndim != 3 or self._forces.shape[1:] != (len(self._supercell), 3)": "forcesShape",
    }
    for st in strip_doc(cd.body):
        if not (isinstance(st, ast.If) and len(st.body) == 1 and isinstance(st.body[0], ast.Raise) and not st.orelse):
            fail(rel, st, "_check_dataset: every statement must be `if <guard>: raise`")
        g = GMAP.get(ast.unparse(st.test))
        if g is None:
            fail(rel, st, f"_check_dataset: unknown guard {ast.unparse(st.test)}")
        guards.append(g)
    rec(rel, cd, "_check_dataset guards", guards)
    return "\n".join(API_HEAD + ["def datasetGuards : List Guard := [" + ", ".join("." + g for g in guards) + "]",
                                 "", "end Symfc.Gen"]) + "\n"


def gen_api_solve():
    rel = "api_symfc.py"
    mod = parse(rel)
    cls = "Symfc"
    # ---- solve
    sv = find_func(mod, "solve", rel, cls)
    sb = strip_doc(sv.body)
    checks_first = (len(sb) >= 3 and ast.unparse(sb[0]) == "self._check_dataset()"
                    and ast.unparse(sb[1]) == "orders = self._check_orders(max_order, orders)")
    rec(rel, sv, "solve validates dataset and orders before anything else", checks_first)
    if not isinstance(sb[2], ast.If) or ast.unparse(sb[-1]) != "return self" or len(sb) != 4:
        fail(rel, sv, "solve: expected checks, one if/elif dispatch, return self")
    branches = []
    node = sb[2]
    while True:
        t = node.test
        if not (isinstance(t, ast.Compare) and ast.unparse(t.left) == "orders" and isinstance(t.ops[0], ast.Eq)):
            fail(rel, t, "solve: dispatch test must be `orders == (...)`")
        ords = list(lit(t.comparators[0], rel))
        basis_keys, fc_keys = [], []
        solver_line = None
        first_write = None
        passes_batch = False
        solver_cls = None
        for st in node.body:
            src = ast.unparse(st)
            for n2 in ast.walk(st):
                if isinstance(n2, ast.Subscript) and ast.unparse(n2.value) == "self._basis_set" and isinstance(n2.ctx, ast.Load):
                    basis_keys.append(lit(n2.slice, rel))
                if isinstance(n2, ast.Subscript) and ast.unparse(n2.value) == "self._force_constants" and isinstance(n2.ctx, ast.Store):
                    fc_keys.append(lit(n2.slice, rel))
                    if first_write is None:
                        first_write = st.lineno
                if isinstance(n2, ast.Call) and isinstance(n2.func, ast.Attribute) and n2.func.attr == "solve" \
                        and isinstance(n2.func.value, ast.Call) and ast.unparse(n2.func.value.func).startswith("FCSolver"):
                    solver_line = st.end_lineno
                    solver_cls = ast.unparse(n2.func.value.func)
                    args = [ast.unparse(a) for a in n2.args]
                    if args != ["self._displacements", "self._forces"]:
                        fail(rel, n2, f"solver.solve must receive the stored dataset, got {args}")
                    passes_batch = any(k.arg == "batch_size" and ast.unparse(k.value) == "batch_size" for k in n2.keywords)
                    ctor = n2.func.value
                    bs_arg = ast.unparse(ctor.args[0]) if ctor.args else ""
        if solver_line is None:
            fail(rel, node, f"solve branch {ords}: solver call not found")
        expect_cls = "FCSolver" + "".join(f"O{k}" for k in ords)
        if solver_cls != expect_cls:
            fail(rel, node, f"solve branch {ords}: expected {expect_cls}, found {solver_cls}")
        writes_after = first_write is not None and first_write > solver_line
        fc_keys_u = sorted(set(fc_keys))
        branches.append({"orders": ords, "basisKeys": sorted(set(basis_keys)), "fcKeys": fc_keys_u,
                         "writesAfter": writes_after, "passesBatch": passes_batch})
        # compact/full selection must not change which keys are written
        sel = [n for n in node.body if isinstance(n, ast.If) and ast.unparse(n.test) == "is_compact_fc"]
        if len(sel) != 1:
            fail(rel, node, f"solve branch {ords}: `if is_compact_fc` selection expected")
        csrc, fsrc = ast.unparse(sel[0].body), ast.unparse(sel[0].orelse)
        if ".compact_fc" not in csrc or ".full_fc" not in fsrc:
            fail(rel, sel[0], f"solve branch {ords}: compact/full accessors expected")
        if len(node.orelse) == 1 and isinstance(node.orelse[0], ast.If):
            node = node.orelse[0]
        elif not node.orelse:
            break
        else:
            fail(rel, node, "solve: unexpected else branch")
    rec(rel, sv, "solve dispatch", branches)
    # ---- run
    rn = find_func(mod, "run", rel, cls)
    rb = strip_doc(rn.body)
    run_guarded = (len(rb) == 2 and isinstance(rb[0], ast.If)
                   and ast.unparse(rb[0].test) == "self._displacements is not None and self._forces is not None"
                   and len(rb[0].body) == 2 and not rb[0].orelse
                   and ast.unparse(rb[0].body[0]) == "self.compute_basis_set(max_order=max_order, orders=orders)"
                   and ast.unparse(rb[0].body[1]).replace(" ", "") ==
                   "self.solve(max_order=max_order,orders=orders,is_compact_fc=is_compact_fc,batch_size=batch_size)"
                   and ast.unparse(rb[1]) == "return self")
    rec(rel, rn, "run = guarded compute_basis_set; solve", run_guarded)

    def br(b):
        return (f"  {{ orders := {lean_list(b['orders'])}, basisKeys := {lean_list(b['basisKeys'])}, "
                f"fcKeys := {lean_list(b['fcKeys'])}, writesAfter := {lean_list(b['writesAfter'])}, "
                f"passesBatch := {lean_list(b['passesBatch'])} }}")
    return "\n".join(API_HEAD + [f"def solveChecksFirst : Bool := {lean_list(checks_first)}",
                                 "def solveBranches : List SolveBranch := [\n" + ",\n".join(br(b) for b in branches) + "]",
                                 f"def runGuarded : Bool := {lean_list(run_guarded)}",
                                 "", "end Symfc.Gen"]) + "\n"


def gen_api_dataflow():
    """What Symfc.solve hands to the solvers: a LENIENT extraction (facts, not failures) — the top-level statements of
    solve, the positional arguments of every FCSolver*.solve call, the first constructor argument, and the kind of
    every statement of every dispatch branch. Props C05/C06/C13 prove from these facts that the stored dataset reaches
    the solver unchanged and that nothing else happens in a branch."""
    rel = "api_symfc.py"
    mod = parse(rel)
    sv = find_func(mod, "solve", rel, "Symfc")
    sb = strip_doc(sv.body)
    top = []
    dispatch = None
    for st in sb:
        if isinstance(st, ast.If) and ast.unparse(st.test).startswith("orders == ") and dispatch is None:
            dispatch = st
            top.append("<dispatch>")
        else:
            top.append(ast.unparse(st))
    if dispatch is None:
        fail(rel, sv, "solve: no `orders == (...)` dispatch found")
    args_all, ctor_all, kinds_all = [], [], []
    node = dispatch
    while True:
        kinds = []
        names = {}
        for st in node.body:
            src = ast.unparse(st)
            val = getattr(st, "value", None)
            tgt = st.targets[0] if isinstance(st, ast.Assign) and len(st.targets) == 1 else getattr(st, "target", None)
            if isinstance(st, (ast.Assign, ast.AnnAssign)) and isinstance(tgt, ast.Name) \
                    and isinstance(val, ast.Subscript) and ast.unparse(val.value) == "self._basis_set":
                kinds.append("basis")
                names[tgt.id] = str(lit(val.slice, rel))
            elif isinstance(st, ast.Assign) and isinstance(tgt, ast.Name) and isinstance(val, ast.Call) \
                    and isinstance(val.func, ast.Attribute) and val.func.attr == "solve" \
                    and isinstance(val.func.value, ast.Call) and ast.unparse(val.func.value.func).startswith("FCSolver"):
                kinds.append("solve")
                args_all.append([ast.unparse(a) for a in val.args]
                                + [f"{k.arg}={ast.unparse(k.value)}" for k in val.keywords if k.arg != "batch_size"])
                ctor = val.func.value
                # the first constructor argument, with local names resolved to the basis-set keys they were read from
                a0 = ctor.args[0] if ctor.args else None
                if isinstance(a0, ast.Name):
                    ctor_all.append(names.get(a0.id, "?" + a0.id))
                elif isinstance(a0, (ast.List, ast.Tuple)) and all(isinstance(e, ast.Name) for e in a0.elts):
                    ctor_all.append("[" + ",".join(names.get(e.id, "?" + e.id) for e in a0.elts) + "]")
                else:
                    ctor_all.append("?" + (ast.unparse(a0) if a0 is not None else ""))
            elif isinstance(st, ast.If) and ast.unparse(st.test) == "is_compact_fc":
                kinds.append("select")
            elif isinstance(st, ast.Assign) and isinstance(tgt, ast.Subscript) \
                    and ast.unparse(tgt.value) == "self._force_constants" and isinstance(val, ast.Name):
                kinds.append("store")
            else:
                kinds.append("other: " + src[:60].replace('"', "'").replace("\n", " "))
        kinds_all.append(kinds)
        if len(node.orelse) == 1 and isinstance(node.orelse[0], ast.If):
            node = node.orelse[0]
        elif not node.orelse:
            break
        else:
            kinds_all.append(["other: else branch"])
            break
    rec(rel, sv, "solve: dataflow into the solvers", {"top": top, "args": args_all, "ctor": ctor_all, "kinds": kinds_all})

    def sl(xs):
        return "[" + ", ".join(json.dumps(x) for x in xs) + "]"
    return "\n".join(["/- REGENERATED by tools/extract.py from api_symfc.py — do not edit. -/",
                      "namespace Symfc.Gen", "",
                      f"def solveTopLevel : List String := {sl(top)}",
                      "def solverDatasetArgs : List (List String) := [" + ", ".join(sl(a) for a in args_all) + "]",
                      f"def solverBasisArgs : List String := {sl(ctor_all)}",
                      "def solveBranchKinds : List (List String) := [\n  " + ",\n  ".join(sl(k) for k in kinds_all) + "]",
                      "", "end Symfc.Gen"]) + "\n"


def gen_api_compute():
    rel = "api_symfc.py"
    mod = parse(rel)
    cls = "Symfc"
    # ---- compute_basis_set
    cb = find_func(mod, "compute_basis_set", rel, cls)
    cbb = strip_doc(cb.body)
    if not (isinstance(cbb[0], ast.For) and ast.unparse(cbb[0].iter) == "self._check_orders(max_order, orders)"):
        fail(rel, cb, "compute_basis_set must iterate over _check_orders(...)")
    cut_keys = []
    node = cbb[0].body[0]
    while isinstance(node, ast.If):
        k = lit(node.test.comparators[0], rel)
        src = ast.unparse(node.body)
        if f"FCBasisSetO{k}(self._supercell" not in src or f"self._basis_set[{k}] = basis_set_o{k}" not in src \
                or "spacegroup_operations=self._spacegroup_operations" not in src or ".run()" not in src:
            fail(rel, node, f"compute_basis_set branch {k} has unexpected form")
        import re
        m = re.search(r"cutoff=self\._cutoff\[(\d)\]", src)
        if not m:
            fail(rel, node, f"compute_basis_set branch {k}: cutoff key not found")
        cut_keys.append((k, int(m.group(1))))
        node = node.orelse[0] if node.orelse else None
    rec(rel, cb, "compute_basis_set cutoff keys", cut_keys)
    # ---- _prepare_cutoff
    pc = ast.unparse(find_func(mod, "_prepare_cutoff", rel, cls))
    for w in ("self._cutoff = {2: None, 3: None, 4: None}", "self._cutoff = cutoff", "for order in (2, 3, 4)",
              "if order not in self._cutoff", "self._cutoff[order] = None"):
        if w not in pc:
            fail(rel, mod, f"_prepare_cutoff: expected `{w}`")

    return "\n".join(API_HEAD + ["def computeCutoffKeys : List (Nat × Nat) := [" +
                                 ", ".join(f"({a}, {b})" for a, b in cut_keys) + "]",
                                 "", "end Symfc.Gen"]) + "\n"


def gen_api_access():
    """class Symfc: the dataset setters store a fresh copy, and no method writes INTO an array (the only subscript
    stores are the result / basis-set / cutoff dictionaries)"""
    rel = "api_symfc.py"
    mod = parse(rel)
    cls = [n for n in mod.body if isinstance(n, ast.ClassDef) and n.name == "Symfc"]
    if len(cls) != 1:
        fail(rel, mod, "class Symfc expected")
    cls = cls[0]
    setters = {}
    for m in cls.body:
        if isinstance(m, ast.FunctionDef) and any(ast.unparse(d).endswith(".setter") for d in m.decorator_list):
            setters[m.name] = [ast.unparse(st) for st in strip_doc(m.body)]
    want = {"displacements": ["self._displacements = np.array(displacements, dtype='double', order='C')"],
            "forces": ["self._forces = np.array(forces, dtype='double', order='C')"],
            "basis_set": ["self._basis_set = basis_set"]}
    copies = all(setters.get(k) == v for k, v in want.items()) and set(setters) == set(want)
    rec(rel, cls, "Symfc setters: datasets are stored as fresh copies (np.array), basis_set by reference", setters)
    allowed = {"self._force_constants", "self._basis_set", "self._cutoff"}
    writes = []
    for m in cls.body:
        if not isinstance(m, ast.FunctionDef):
            continue
        fresh_locals = set()
        for n in ast.walk(m):
            if isinstance(n, (ast.Assign, ast.AnnAssign)) and getattr(n, "value", None) is not None:
                v = n.value
                if isinstance(v, (ast.Dict, ast.List, ast.Set)) or (isinstance(v, ast.Call) and ast.unparse(v.func) in (
                        "dict", "list", "set")):
                    for t in (n.targets if isinstance(n, ast.Assign) else [n.target]):
                        if isinstance(t, ast.Name):
                            fresh_locals.add(t.id)
        for n in ast.walk(m):
            tgt = None
            if isinstance(n, ast.Subscript) and isinstance(n.ctx, (ast.Store, ast.Del)):
                tgt = n.value
                if isinstance(tgt, ast.Name) and tgt.id in fresh_locals:
                    tgt = None          # a container created in this very call
            elif isinstance(n, ast.AugAssign):
                tgt = n.target if not isinstance(n.target, ast.Name) else None
                if isinstance(tgt, ast.Subscript):
                    tgt = tgt.value
            elif isinstance(n, ast.Call):
                fn_ = ast.unparse(n.func)
                if fn_ in ("np.copyto", "np.put", "np.place", "np.putmask") and n.args:
                    tgt = n.args[0]
                elif isinstance(n.func, ast.Attribute) and n.func.attr in ("fill", "resize", "sort", "itemset", "put") \
                        and not isinstance(n.func.value, ast.Name):
                    tgt = n.func.value
                elif any(k.arg == "out" for k in n.keywords):
                    tgt = [k.value for k in n.keywords if k.arg == "out"][0]
            if tgt is not None and ast.unparse(tgt) not in allowed:
                writes.append((m.name, n.lineno, ast.unparse(tgt)[:60]))
    rec(rel, cls, "Symfc: writes into arrays (other than the result / basis-set / cutoff dictionaries)",
        [list(w) for w in writes])
    return "\n".join(API_HEAD[:3] + ["",
        "/-- the dataset setters store `np.array(x, dtype='double', order='C')` (a fresh copy) and nothing else -/",
        f"def apiSettersCopy : Bool := {lean_list(copies)}",
        "/-- (method, line, target): every in-place write of class `Symfc` into something that is not one of its",
        "    three dictionaries (results, basis sets, cutoffs) -/",
        "def apiArrayWrites : List (String × Nat × String) := [" +
        ", ".join(f'("{a}", {b}, {json.dumps(c)})' for a, b, c in writes) + "]",
        "", "end Symfc.Gen"]) + "\n"


# ----------------------------------------------------------------------------------------
# G4: eig_tools.py
# ----------------------------------------------------------------------------------------

def gen_eig():
    check_skeletons("Eig")
    rel = "utils/eig_tools.py"
    mod = parse(rel)
    ep = find_func(mod, "eigh_projector", rel)
    esrc = ast.unparse(ep)
    tol = None
    for node in ast.walk(ep):
        if isinstance(node, ast.Assign) and ast.unparse(node.targets[0]) == "tol":
            tol = lit(node.value, rel)
    for w in ("rank = int(round(np.trace(p)))", "if rank == 0", "nonzero = np.isclose(eigvals, 1.0)",
              "np.count_nonzero((eigvals > 1.0 + tol) | (eigvals < -tol))", "return eigvecs[:, nonzero]",
              "compr_bool = np.logical_not(nonzero)",
              "return (eigvecs[:, nonzero], (eigvals[compr_bool], eigvecs[:, compr_bool]))"):
        if w not in esrc:
            fail(rel, ep, f"eigh_projector: expected `{w}`")
    rec(rel, ep, "eigh_projector tolerance", tol)
    es = find_func(mod, "eigsh_projector", rel)
    rule = "other"
    for node in ast.walk(es):
        if isinstance(node, ast.If):
            t = ast.unparse(node.test)
            if t == "not np.isclose(p_block[0], 0.0)":
                rule = "keepIfNotCloseZero"
            elif t == "np.isclose(p_block[0], 1.0)":
                rule = "keepIfCloseOne"
    rec(rel, es, "eigsh_projector 1x1 rule", rule)
    ssrc = ast.unparse(es)
    for w in ("p, compr_p = _compr_projector(p)", "group = _find_projector_blocks(p)", "key = tuple(p_block)",
              "uniq_eigvecs[key][1].append(block_label)", "uniq_eigvecs[key] = [eigvecs, [block_label]]",
              "if block_size > 1", "c_p = _recover_eigvecs_from_uniq_eigvecs(uniq_eigvecs, group, p.shape[0])",
              "return compr_p @ c_p"):
        if w not in ssrc:
            fail(rel, es, f"eigsh_projector: expected `{w}`")
    bl = find_func(mod, "_block_eigh_projector", rel)
    bsrc = ast.unparse(bl)
    tgt = None
    for node in ast.walk(bl):
        if isinstance(node, ast.Assign) and ast.unparse(node.targets[0]) == "target_size" \
                and ast.unparse(node.value).startswith("min(max("):
        
            import re
            m = re.fullmatch(r"min\(max\(p_size // (\d+), (\d+)\), (\d+)\)", ast.unparse(node.value))
            if not m:
                fail(rel, node, "target_size formula")
            tgt = [int(x) for x in m.groups()]
    if tgt is None:
        fail(rel, bl, "target_size not found")
    rec(rel, bl, "_block_eigh_projector target_size (div, lo, hi)", tgt)
    # does a skipped sub-block contribute its coordinates to the complement?
    skipped_cmplt = False
    uses_bound = "cmplt = cmplt[:, :col_id_cmplt]" in bsrc
    for node in ast.walk(bl):
        if isinstance(node, ast.If) and ast.unparse(node.test) == "rank > 0" and node.orelse:
            o = ast.unparse(node.orelse)
            if "np.eye(end - begin)" in o and "cmplt[begin:end, col_id_cmplt:col_end_cmplt]" in o \
                    and "col_id_cmplt = col_end_cmplt" in o:
                skipped_cmplt = True
    rec(rel, bl, "skipped sub-blocks enter the complement", skipped_cmplt and uses_bound)
    for w in ("p_small = p_block[begin:end, begin:end]", "rank = int(round(np.trace(p_small)))",
              "eigh_projector(p_small, return_complement=True", "eigvecs_block[begin:end, col_id:col_end] = eigvecs",
              "cmplt[begin:end, col_id_cmplt:col_end_cmplt] = cmplt_small",
              "p_block[begin:end, begin:end] -= eigvecs @ eigvecs.T", "p_block_rem = cmplt.T @ p_block @ cmplt",
              "eigvecs_block[:, col_id:col_end] = cmplt @ eigvecs", "get_batch_slice(p_size, target_size)"):
        if w not in bsrc:
            fail(rel, bl, f"_block_eigh_projector: expected `{w}`")
    sr = find_func(mod, "eigsh_projector_sumrule", rel)
    thr = None
    for a, d in zip(sr.args.args[-len(sr.args.defaults):], sr.args.defaults):
        if a.arg == "size_threshold":
            thr = lit(d, rel)
    srs = ast.unparse(sr)
    if "if p.shape[0] > size_threshold" not in srs or "eigsh_projector_sumrule_large(p" not in srs \
            or "eigsh_projector_sumrule_stable(p" not in srs:
        fail(rel, sr, "eigsh_projector_sumrule switch")
    rec(rel, sr, "eigsh_projector_sumrule size_threshold", thr)
    for fname in ("eigsh_projector_sumrule_stable", "eigsh_projector_sumrule_large"):
        f = ast.unparse(find_func(mod, fname, rel))
        for w in ("group = _find_projector_blocks(p)", "p_block = p[np.ix_(ids, ids)].toarray()",
                  "rank = int(round(np.trace(p_block)))", "if rank > 0", "eigvecs_full[ids, col_id:col_end] = eigvecs",
                  "return eigvecs_full[:, :col_id]"):
            if w not in f:
                fail(rel, mod, f"{fname}: expected `{w}`")
    rc = ast.unparse(find_func(mod, "_recover_eigvecs_from_uniq_eigvecs", rel))
    for w in ("np.repeat([i for ll in labels for i in group[ll]], n_col)",
              "for seq, _ in enumerate(labels) for i in range(n_row) for j in range(col_id + seq * n_col, col_id + (seq + 1) * n_col)",
              "np.tile(eigvecs.flatten(), num_labels)", "col_id += n_col * num_labels"):
        if w not in rc:
            fail(rel, mod, f"_recover_eigvecs_from_uniq_eigvecs: expected `{w}`")
    cp = ast.unparse(find_func(mod, "_compr_projector", rel))
    for w in ("_, col_p = p.nonzero()", "col_p = np.unique(col_p)", "p = p[col_p].T"):
        if w not in cp:
            fail(rel, mod, f"_compr_projector: expected `{w}`")
    tol_e = f"{tol:e}"
    mant, ex = tol_e.split("e")
    if float(mant) != 1.0:
        fail(rel, ep, "tolerance is not a power of ten")
    out = ["/- REGENERATED by tools/extract.py from utils/eig_tools.py — do not edit. -/",
           "import SymfcModel.Model.Types", "namespace Symfc.Gen", "open Symfc", "",
           f"/-- eigenvalue range tolerance = 10^(-{-int(ex)}) -/", f"def eigTolExp : Nat := {-int(ex)}",
           f"def oneByOneRule : OneByOneRule := .{rule}",
           f"def skippedSubBlockInComplement : Bool := {lean_list(skipped_cmplt and uses_bound)}",
           f"def eigSizeThreshold : Nat := {thr}",
           f"def eigTargetDiv : Nat := {tgt[0]}", f"def eigTargetLo : Nat := {tgt[1]}", f"def eigTargetHi : Nat := {tgt[2]}",
           "", "end Symfc.Gen"]
    return "\n".join(out) + "\n"


# ----------------------------------------------------------------------------------------
# G5: sum rules / coset projector
# ----------------------------------------------------------------------------------------

def gen_sumrule():
    check_skeletons("SumRule")
    out = ["/- REGENERATED by tools/extract.py from utils/matrix_tools_O{2,3,4}.py, utils/utils_O{2,3,4}.py — do not edit. -/",
           "import SymfcModel.Model.Types", "import SymfcModel.Model.SumRule", "namespace Symfc.Gen", "open Symfc", ""]
    for n in (2, 3, 4):
        rel = f"utils/matrix_tools_O{n}.py"
        mod = parse(rel)
        big = "N" * n
        p3 = 3 ** n
        rest = "natom" if n == 2 else ("NN" if n == 3 else "NNN")
        for variant, fname in (("fast", f"compressed_projector_sum_rules_O{n}"),
                               ("stable", f"compressed_projector_sum_rules_O{n}_stable")):
            fn = find_func(mod, fname, rel)
            src = ast.unparse(fn)
            div = "other"
            for node in ast.walk(fn):
                if isinstance(node, ast.AugAssign) and ast.unparse(node.target) == "proj_cplmt" and isinstance(node.op, ast.Div):
                    v = ast.unparse(node.value)
                    div = {"natom": "natom", "n_lp * natom": "nlpNatom", "natom * n_lp": "nlpNatom"}.get(v, "other")
            indep = "nonzero[indep_atoms" in src
            if indep:
                idx = "indep_atoms" + ", :" * (n - 1)
                if f"nonzero[{idx}] = True" not in src:
                    fail(rel, fn, f"{fname}: independent-atom mask must be on axis 0: nonzero[{idx}] = True")
            want = [
                f"decompr_idx = atomic_decompr_idx.reshape((natom, {rest})).T.reshape(-1) * {p3}",
                f"for begin, end in zip(*get_batch_slice({big}, batch_size))",
                f"batch_size = optimize_batch_size_sum_rules_O{n}(natom, n_batch=n_batch)",
                "size = end - begin", f"size_vector = size * {p3}", "size_row = size_vector // natom",
                f"np.repeat(np.arange(size_row), natom)[np.tile(nonzero_b, {p3})]",
                "decompr_idx_b = decompr_idx[begin:end][nonzero_b]",
                "c_sum_cplmt = dot_product_sparse(c_sum_cplmt, n_a_compress_mat, use_mkl=use_mkl)",
                "proj_cplmt += dot_product_sparse(c_sum_cplmt.T, c_sum_cplmt, use_mkl=use_mkl)",
                "return scipy.sparse.identity(proj_cplmt.shape[0]) - proj_cplmt",
                f"fc_cutoff.nonzero_atomic_indices_fc{n}()",
            ]
            if variant == "fast":
                want += ["nonzero = nonzero & nonzero_c",
                         f"nonzero_c = nonzero_c.reshape((natom, {rest})).T.reshape(-1)",
                         "if size_data == 0"]
            else:
                want += [f"nonzero = nonzero.reshape((natom, {rest})).T.reshape(-1)",
                         "np.repeat(np.arange(size_row), natom)"]
            for w in want:
                if w not in src:
                    fail(rel, fn, f"{fname}: expected `{w}`")
            rec(rel, fn, f"{fname} divisor / indep mask", [div, indep])
            out.append(f"def sumRuleCfgO{n}_{variant} : SumRuleCfg := {{ indepMask := {lean_list(indep)}, divisor := .{div} }}")
        ob = find_func(mod, f"optimize_batch_size_sum_rules_O{n}", rel)
        osrc = ast.unparse(ob)
        bs = "natom * (natom // n_batch)" if n == 2 else f"natom ** {n-1} * (natom // n_batch)"
        for w in (f"batch_size = {bs}", "if n_batch > natom", "return batch_size"):
            if w not in osrc:
                fail(rel, ob, f"optimize_batch_size_sum_rules_O{n}: expected `{w}`")
        rec(rel, ob, f"O{n} sum-rule batch size", bs)
        out.append(f"/-- `batch_size = natom^{n-1} * (natom // n_batch)` -/")
        out.append(f"def sumRuleBatchPowO{n} : Nat := {n-1}")
        # default n_batch: natom // min(natom, A) below threshold T, else natom // B
        import re
        m = re.search(r"if natom < (\d+):\s+n_batch = natom // min\(natom, (\d+)\)\s+else:\s+n_batch = natom // (\d+)", osrc)
        if n >= 3:
            if not m:
                fail(rel, ob, "default n_batch formula")
            out.append(f"def sumRuleDefaultO{n} : Nat × Nat × Nat := ({m.group(1)}, {m.group(2)}, {m.group(3)})")
        # coset projector
        rel2 = f"utils/utils_O{n}.py"
        mod2 = parse(rel2)
        for variant, fname in (("fast", f"get_compr_coset_projector_O{n}"),
                               ("stable", f"get_compr_coset_projector_O{n}_stable")):
            try:
                fn = find_func(mod2, fname, rel2)
            except Untranslatable:
                if n == 2 and variant == "stable":
                    continue
                raise
            src = ast.unparse(fn)
            fac = None
            for node in ast.walk(fn):
                if isinstance(node, ast.Assign) and ast.unparse(node.targets[0]) == "factor":
                    fac = ast.unparse(node.value)
            fast_like = "nonzero_indep_atom" in src
            exp_fac = "1 / len(spg_reps.unique_rotation_indices)" if fast_like else \
                "1 / n_lp / len(spg_reps.unique_rotation_indices)"
            if fac != exp_fac:
                fail(rel2, fn, f"{fname}: factor {fac} does not match the mask variant ({exp_fac})")
            want = [f"permutation = spg_reps.get_sigma{n}_rep(i, nonzero=nonzero)",
                    "(atomic_decompr_idx[permutation], col)",
                    "for i, _ in enumerate(spg_reps.unique_rotation_indices)"]
            if n >= 3:
                want += ["cosets[i % n_cosets] += mat", "return sum(cosets)",
                         "n_cosets = min([int(np.sqrt(len(spg_reps.unique_rotation_indices))), 4])",
                         "mat = kron(mat, spg_reps.r_reps[i] * factor).tocsr()"]
                if fast_like:
                    want += [f"atom_indices = np.arange(N ** {n}) // N ** {n-1}", "nonzero = nonzero & nonzero_indep_atom"]
            else:
                want += ["coset_reps_sum += mat", "mat = kron(mat, spg_reps.r_reps[i] * factor)"]
            for w in want:
                if w not in src:
                    fail(rel2, fn, f"{fname}: expected `{w}`")
            rec(rel2, fn, f"{fname} factor / first-atom mask", [fac, fast_like])
            out.append(f"def cosetFastMaskO{n}_{variant} : Bool := {lean_list(fast_like)}")
    out += ["", "end Symfc.Gen"]
    return "\n".join(out) + "\n"


# ----------------------------------------------------------------------------------------
# G7: the exported first-order basis (matrix_tools_O1.py, basis_sets_O1.py)
# ----------------------------------------------------------------------------------------

def gen_o1():
    rel = "utils/matrix_tools_O1.py"
    mod = parse(rel)
    fn = find_func(mod, "_compressed_complement_projector_sum_rules_algo1", rel)
    src = [ast.unparse(st) for st in strip_doc(fn.body)]
    expect = ["N3 = 3 * N", "row = np.arange(N3)", "col = np.tile(range(3), N)", "data = np.zeros(N3)",
              "data[:] = 1 / np.sqrt(N)", "c_sum_cplmt = csr_array((data, (row, col)), shape=(N3, 3))",
              "c_sum_cplmt_compr = c_sum_cplmt.T @ compress_mat",
              "proj_sum_cplmt = c_sum_cplmt_compr.T @ c_sum_cplmt_compr", "return proj_sum_cplmt"]
    if src != expect:
        fail(rel, fn, f"order-1 sum-rule complement has unexpected form: {src}")
    rec(rel, fn, "O1 sum-rule matrix: entry 1/sqrt(N) at (3i+a, a)", True)
    top = [ast.unparse(st) for st in strip_doc(find_func(mod, "compressed_projector_sum_rules", rel).body)]
    if top != ["proj_cplmt = _compressed_complement_projector_sum_rules(compress_mat, N, use_mkl=use_mkl)",
               "return scipy.sparse.identity(proj_cplmt.shape[0]) - proj_cplmt"]:
        fail(rel, mod, f"compressed_projector_sum_rules (O1) has unexpected form: {top}")
    disp = [ast.unparse(st) for st in strip_doc(find_func(mod, "_compressed_complement_projector_sum_rules", rel).body)]
    if disp != ["return _compressed_complement_projector_sum_rules_algo1(compress_mat, N, use_mkl=use_mkl)"]:
        fail(rel, mod, "order-1 sum-rule dispatcher has unexpected form")
    rel2 = "basis_sets/basis_sets_O1.py"
    mod2 = parse(rel2)
    run = [ast.unparse(st) for st in strip_doc(find_func(mod2, "run", rel2, "FCBasisSetO1").body)]
    expect_run = ["c_trans = self._get_c_trans()", "coset_reps_sum = get_compr_coset_reps_sum(self._spg_reps)",
                  "proj_rt = coset_reps_sum",
                  "if len(proj_rt.data) == 0:\n    raise ValueError('No basis vectors exist.')",
                  "c_rt = eigsh_projector(proj_rt, verbose=self._log_level > 0)",
                  "compress_mat = c_trans @ c_rt",
                  "proj = compressed_projector_sum_rules(compress_mat, self._natom)",
                  "self._basis_set = eigsh_projector(proj, verbose=self._log_level > 0)",
                  "self._full_basis_set = compress_mat @ self._basis_set", "return self"]
    if run != expect_run:
        fail(rel2, mod2, f"FCBasisSetO1.run has unexpected form: {run}")
    rec(rel2, find_func(mod2, "run", rel2, "FCBasisSetO1"),
        "FCBasisSetO1.run = c_trans; coset eigsh; sum-rule eigsh; full = c_trans c_rt basis", True)
    out = ["/- REGENERATED by tools/extract.py from matrix_tools_O1.py / basis_sets_O1.py — do not edit. -/",
           "namespace Symfc.Gen", "",
           "/-- the order-1 sum-rule matrix has the entry `1/√N` at `(3 i + a, a)` and nothing else, and the projector",
           "    handed to the eigen-solver is `1 − (c_sumᵀ C)ᵀ (c_sumᵀ C)` -/",
           "def o1SumRuleTiledIdentity : Bool := true",
           "/-- `FCBasisSetO1.run` is the pipeline `A = c_trans`, `W₂ = eigsh(coset)`, `W₃ = eigsh(sum rule)`, `full = A W₂ W₃` -/",
           "def o1PipelineShape : Bool := true", "", "end Symfc.Gen"]
    return "\n".join(out) + "\n"


# ----------------------------------------------------------------------------------------
# G8: hidden state — the model is a set of pure functions of their arguments; the code must not keep state between
#     calls in module-level objects (memo tables, caches) or through `global`
# ----------------------------------------------------------------------------------------

MUTATORS = ("append", "update", "setdefault", "clear", "pop", "popitem", "extend", "insert", "add", "remove",
            "discard", "sort", "reverse", "fill", "resize", "put", "itemset", "__setitem__", "appendleft")


def gen_purity():
    found = []
    for path in sorted(SRC.rglob("*.py")):
        rel = str(path.relative_to(SRC))
        if rel.startswith("utils/rotation_dev"):
            continue
        mod = parse(rel)
        # names bound at module level to something that is not a function / class / import
        mod_names = {}
        for st in mod.body:
            targets = []
            if isinstance(st, ast.Assign):
                targets = [t for t in st.targets if isinstance(t, ast.Name)]
                val = st.value
            elif isinstance(st, ast.AnnAssign) and isinstance(st.target, ast.Name) and st.value is not None:
                targets = [st.target]
                val = st.value
            for t in targets:
                immutable = isinstance(val, ast.Constant) or (
                    isinstance(val, ast.Tuple) and all(isinstance(e, ast.Constant) for e in val.elts))
                mod_names[t.id] = (st.lineno, immutable)
        for fn in ast.walk(mod):
            if not isinstance(fn, (ast.FunctionDef, ast.AsyncFunctionDef)):
                continue
            for d in fn.decorator_list:
                dn = ast.unparse(d)
                if "cache" in dn or "memo" in dn:
                    found.append((rel, fn.lineno, f"{fn.name}: decorator {dn}"))
            local_stores = {n.id for n in ast.walk(fn) if isinstance(n, ast.Name) and isinstance(n.ctx, ast.Store)}
            local_stores |= {a.arg for a in fn.args.args + fn.args.kwonlyargs}
            globals_decl = set()
            for n in ast.walk(fn):
                if isinstance(n, (ast.Global, ast.Nonlocal)):
                    globals_decl |= set(n.names)
                    found.append((rel, n.lineno, f"{fn.name}: {'global' if isinstance(n, ast.Global) else 'nonlocal'} "
                                                 f"{', '.join(n.names)}"))
            for n in ast.walk(fn):
                base = None
                if isinstance(n, ast.Subscript) and isinstance(n.ctx, (ast.Store, ast.Del)):
                    base = n.value
                elif isinstance(n, ast.Attribute) and isinstance(n.ctx, (ast.Store, ast.Del)):
                    base = n.value
                elif isinstance(n, ast.Call) and isinstance(n.func, ast.Attribute) and n.func.attr in MUTATORS:
                    base = n.func.value
                while isinstance(base, (ast.Subscript, ast.Attribute)):
                    base = base.value
                if isinstance(base, ast.Name) and base.id in mod_names and (
                        base.id not in local_stores or base.id in globals_decl):
                    found.append((rel, n.lineno, f"{fn.name}: writes to module-level `{base.id}`"))
            # mutable default arguments that are mutated
            for a, dflt in zip(reversed(fn.args.args), reversed(fn.args.defaults)):
                if isinstance(dflt, (ast.Dict, ast.List, ast.Set)) or (
                        isinstance(dflt, ast.Call) and ast.unparse(dflt.func) in ("dict", "list", "set")):
                    found.append((rel, fn.lineno, f"{fn.name}: mutable default argument `{a.arg}`"))
        # function attributes used as storage (f.cache = ...)
        fnames = {st.name for st in mod.body if isinstance(st, (ast.FunctionDef, ast.ClassDef))}
        for n in ast.walk(mod):
            if isinstance(n, ast.Attribute) and isinstance(n.ctx, ast.Store) and isinstance(n.value, ast.Name) \
                    and n.value.id in fnames:
                found.append((rel, n.lineno, f"attribute `{n.value.id}.{n.attr}` used as storage"))
        # class-level mutable attributes
        for cls in [st for st in mod.body if isinstance(st, ast.ClassDef)]:
            for st in cls.body:
                if isinstance(st, (ast.Assign, ast.AnnAssign)) and getattr(st, "value", None) is not None \
                        and isinstance(st.value, (ast.Dict, ast.List, ast.Set, ast.Call)):
                    found.append((rel, st.lineno, f"class {cls.name}: class-level mutable attribute"))
    found = sorted(set(found))
    rec("(all modules)", None,
        "module-level / class-level / function-level hidden state written by functions", [list(f) for f in found])
    out = ["/- REGENERATED by tools/extract.py from every module of src/symfc — do not edit. -/",
           "namespace Symfc.Gen", "",
           "/-- (file, line, what): every place where a function keeps state that survives the call — writes to a",
           "    module-level object, `global`/`nonlocal`, cache decorators, function attributes, class-level mutable",
           "    attributes, mutable default arguments. The model is a set of pure functions; this list must be empty. -/",
           "def hiddenState : List (String × Nat × String) := [" +
           ", ".join(f'("{a}", {b}, "{c}")' for a, b, c in found) + "]",
           "", "end Symfc.Gen"]
    return "\n".join(out) + "\n"


# ----------------------------------------------------------------------------------------
# Statement skeletons: the hand-written model was validated (correspondence) against functions with exactly these
# statement structures. tools/skeletons.json records, per function, the normalised list "depth:statement head"
# (docstrings, prints, timing and `if verbose` blocks removed). A function whose skeleton differs is UNTRANSLATABLE:
# the tie between model and code has to be re-established (correspondence + failing-input search decide the rest).
# ----------------------------------------------------------------------------------------

SKELETON_FILE = Path(__file__).resolve().parent / "skeletons.json"
SKELETON_GROUPS = {
    "PermTables": [("utils/permutation_tools.py", None), ("utils/permutation_tools_O2.py", None),
                   ("utils/permutation_tools_O3.py", None), ("utils/permutation_tools_O4.py", None),
                   ("utils/utils_O2.py", ["get_lat_trans_decompr_indices", "get_lat_trans_compr_indices",
                                          "get_lat_trans_compr_matrix", "get_lat_trans_compr_matrix_O2",
                                          "_get_atomic_lat_trans_decompr_indices"]),
                   ("utils/utils_O3.py", ["get_atomic_lat_trans_decompr_indices_O3", "get_lat_trans_decompr_indices_O3",
                                          "get_lat_trans_compr_matrix_O3", "_get_lat_trans_compr_matrix_O3"]),
                   ("utils/utils_O4.py", ["get_atomic_lat_trans_decompr_indices_O4", "get_lat_trans_decompr_indices_O4",
                                          "get_lat_trans_compr_matrix_O4", "_get_lat_trans_compr_matrix_O4"]),
                   ("utils/matrix_tools_O2.py", ["N3N3_to_NNand33", "projector_permutation_lat_trans_O2"]),
                   ("utils/matrix_tools_O3.py", ["_N3N3N3_to_NNNand333",
                                                 "_construct_projector_permutation_lat_trans_from_combinations",
                                                 "_projector_permutation_lat_trans_unique_index1",
                                                 "_projector_permutation_lat_trans_unique_index2",
                                                 "_projector_permutation_lat_trans_unique_index3",
                                                 "_projector_not_reduced", "projector_permutation_lat_trans_O3"]),
                   ("utils/matrix_tools_O4.py", ["N3N3N3N3_to_NNNNand3333", "projector_permutation_lat_trans_O4"]),
                   ("utils/matrix_tools_O1.py", None),
                   ("utils/utils_O1.py", None), ("utils/utils.py", ["get_indep_atoms_by_lat_trans"]),
                   ("utils/matrix_tools.py", None)],
    "SumRule": [("utils/matrix_tools_O2.py", ["optimize_batch_size_sum_rules_O2", "compressed_projector_sum_rules_O2",
                                               "compressed_projector_sum_rules_O2_stable"]),
                ("utils/matrix_tools_O3.py", ["optimize_batch_size_sum_rules_O3", "compressed_projector_sum_rules_O3",
                                               "compressed_projector_sum_rules_O3_stable"]),
                ("utils/matrix_tools_O4.py", ["optimize_batch_size_sum_rules_O4", "compressed_projector_sum_rules_O4",
                                               "compressed_projector_sum_rules_O4_stable"]),
                ("utils/utils_O2.py", ["get_compr_coset_reps_sum", "get_compr_coset_projector_O2"]),
                ("utils/utils_O3.py", ["get_compr_coset_projector_O3", "get_compr_coset_projector_O3_stable"]),
                ("utils/utils_O4.py", ["get_compr_coset_projector_O4", "get_compr_coset_projector_O4_stable"]),
                ],
    "SpgRepsSkel": [("spg_reps/spg_reps_base.py", None), ("spg_reps/spg_reps_O1.py", None),
                    ("spg_reps/spg_reps_O2.py", None), ("spg_reps/spg_reps_O3.py", None),
                    ("spg_reps/spg_reps_O4.py", None)],
    "Eig": [("utils/eig_tools.py", None)],
    "Solver": [("solvers/solver_base.py", None), ("solvers/solver_O2.py", None), ("solvers/solver_O3.py", None),
               ("solvers/solver_O4.py", None), ("solvers/solver_O2O3.py", None), ("solvers/solver_O3O4.py", None),
               ("solvers/solver_O2O3O4.py", None), ("utils/solver_funcs.py", None)],
    "Cutoff": [("utils/cutoff_tools.py", None)],
    "SgPermSkel": [("utils/utils.py", ["round_positions", "argsort_positions", "_find_optimal_decimals",
                                       "compute_sg_permutations"])],
    "PipelineSkel": [("basis_sets/basis_sets_base.py", None), ("basis_sets/basis_sets_O2.py", None),
                     ("basis_sets/basis_sets_O3.py", None), ("basis_sets/basis_sets_O4.py", None),
                     ("basis_sets/basis_sets_O1.py", None), ("utils/utils.py", "CLASS:SymfcAtoms")],
}


def _skeleton(fn):
    out = []

    def noise(st):
        if isinstance(st, ast.Expr):
            if isinstance(st.value, ast.Constant) and isinstance(st.value.value, str):
                return True
            if isinstance(st.value, ast.Call) and ast.unparse(st.value.func) == "print":
                return True
        if isinstance(st, ast.Assign) and ast.unparse(st.value) == "time.time()":
            return True
        if isinstance(st, ast.If) and not st.orelse and all(noise(b) for b in st.body):
            return True            # `if verbose:` blocks that only print / take the time
        return False

    def visit(stmts, depth):
        for st in stmts:
            if noise(st):
                continue
            if isinstance(st, (ast.FunctionDef, ast.AsyncFunctionDef, ast.ClassDef)):
                out.append(f"{depth}:def {st.name}")
                visit(st.body, depth + 1)
                continue
            if isinstance(st, (ast.If, ast.For, ast.While, ast.With, ast.Try)):
                out.append(f"{depth}:" + ast.unparse(st).split("\n")[0])
                for field in ("body", "orelse", "finalbody"):
                    sub = getattr(st, field, None)
                    if sub:
                        if field != "body":
                            out.append(f"{depth}:<{field}>")
                        visit(sub, depth + 1)
                for h in getattr(st, "handlers", []):
                    out.append(f"{depth}:except {ast.unparse(h.type) if h.type else ''}")
                    visit(h.body, depth + 1)
            else:
                out.append(f"{depth}:" + ast.unparse(st))
    visit(fn.body, 0)
    return out


def _group_skeletons(group):
    res = {}
    for rel, names in SKELETON_GROUPS[group]:
        mod = parse(rel)
        if isinstance(names, str) and names.startswith("CLASS:"):
            cname = names[6:]
            cls = [n_ for n_ in mod.body if isinstance(n_, ast.ClassDef) and n_.name == cname]
            if len(cls) != 1:
                fail(rel, mod, f"class {cname} not found")
            for m in cls[0].body:
                if isinstance(m, (ast.FunctionDef, ast.AsyncFunctionDef)):
                    res[f"{rel}::{cname}.{m.name}"] = _skeleton(m)
            continue
        for node in mod.body:
            if isinstance(node, (ast.FunctionDef, ast.AsyncFunctionDef)):
                if names is None or node.name in names:
                    res[f"{rel}::{node.name}"] = _skeleton(node)
            elif isinstance(node, ast.ClassDef) and names is None:
                for m in node.body:
                    if isinstance(m, (ast.FunctionDef, ast.AsyncFunctionDef)):
                        res[f"{rel}::{node.name}.{m.name}"] = _skeleton(m)
        if names is not None:
            for nme in names:
                if f"{rel}::{nme}" not in res:
                    fail(rel, mod, f"function {nme} not found")
    return res


def check_skeletons(group):
    cur = _group_skeletons(group)
    if os.environ.get("VERIF_RECORD_SKELETONS") == "1":
        allsk = json.loads(SKELETON_FILE.read_text()) if SKELETON_FILE.exists() else {}
        allsk[group] = cur
        SKELETON_FILE.write_text(json.dumps(allsk, indent=0, sort_keys=True))
        return
    pinned = json.loads(SKELETON_FILE.read_text()).get(group)
    if pinned is None:
        fail("tools/skeletons.json", None, f"no recorded skeletons for group {group}")
    for key in sorted(set(pinned) | set(cur)):
        rel = key.split("::")[0]
        if key not in cur:
            fail(rel, None, f"{key}: function disappeared")
        if key not in pinned:
            fail(rel, None, f"{key}: new function in a modelled module (not covered by the model)")
        a, b = pinned[key], cur[key]
        if a != b:
            i = next((k for k, (x, y) in enumerate(zip(a, b)) if x != y), min(len(a), len(b)))
            was = a[i] if i < len(a) else "<end>"
            now = b[i] if i < len(b) else "<end>"
            fail(rel, None, f"{key}: statement structure changed at statement {i}: was `{was[:100]}`, now `{now[:100]}`")
    rec("tools/skeletons.json", None, f"statement skeletons of group {group} unchanged", len(cur))


def gen_skel(group):
    def g():
        check_skeletons(group)
        return ("/- REGENERATED by tools/extract.py — do not edit. -/\nnamespace Symfc.Gen\n\n"
                f"/-- the statement skeletons of the functions of group {group} are the ones the model was validated against -/\n"
                f"def skeleton{group} : Bool := true\n\nend Symfc.Gen\n")
    return g


def gen_pipeline_flow():
    """the dataflow of FCBasisSetO{2,3,4}.run: which function produces which intermediate from which intermediates —
    the A, P, W2, T, W3 of the pipeline theorem (Lemmas/Pipeline.lean) are these variables"""
    out = ["/- REGENERATED by tools/extract.py from basis_sets/basis_sets_O{2,3,4}.py — do not edit. -/",
           "namespace Symfc.Gen", ""]
    for k in (2, 3, 4):
        rel = f"basis_sets/basis_sets_O{k}.py"
        mod = parse(rel)
        fn = find_func(mod, "run", rel, f"FCBasisSetO{k}")
        body = [st for st in strip_doc(fn.body)]
        flow = []
        names_of_interest = {"trans_perms", "c_pt", "proj_rpt", "c_rpt", "n_a_compress_mat", "proj", "eigvecs"}

        def call_step(st):
            if isinstance(st, ast.Assign) and len(st.targets) == 1 and isinstance(st.value, ast.Call):
                tgt = ast.unparse(st.targets[0])
                fname = ast.unparse(st.value.func)
                if fname == "time.time":
                    return None
                args = [ast.unparse(a) for a in st.value.args if isinstance(a, ast.Name) and a.id in names_of_interest]
                args += [f"{kw.arg}={ast.unparse(kw.value)}" for kw in st.value.keywords
                         if isinstance(kw.value, ast.Name) and kw.value.id in names_of_interest]
                return (tgt, fname, args)
            return None
        direct = None
        for st in body:
            if isinstance(st, ast.Assign) and ast.unparse(st) == "direct_permutation = True":
                direct = True
            elif isinstance(st, ast.Assign) and ast.unparse(st.targets[0]) == "direct_permutation":
                fail(rel, st, "direct_permutation is no longer the constant True")
            elif isinstance(st, ast.If) and ast.unparse(st.test) == "direct_permutation":
                for sub in st.body:
                    cs = call_step(sub)
                    if cs:
                        flow.append(cs)
            elif isinstance(st, ast.If) and ast.unparse(st.test) == "rotational_sum_rules":
                flow.append(("proj", "OPTIONAL(rotational_sum_rules) -=", ["complementary_compr_projector_rot_sum_rules_O2"]))
            elif isinstance(st, ast.Assign):
                cs = call_step(st)
                if cs:
                    flow.append(cs)
                else:
                    src = ast.unparse(st)
                    if src in ("self._basis_set = eigvecs", "self._n_a_compression_matrix = n_a_compress_mat"):
                        flow.append((ast.unparse(st.targets[0]), "=", [ast.unparse(st.value)]))
                    elif src.startswith("trans_perms = ") or ast.unparse(st.value) == "time.time()":
                        if src.startswith("trans_perms = ") and src != "trans_perms = self._spg_reps.translation_permutations":
                            fail(rel, st, "trans_perms has an unexpected source")
                    else:
                        fail(rel, st, f"run(): unexpected assignment `{src[:80]}`")
        if direct is not True:
            fail(rel, fn, "direct_permutation = True expected")
        rec(rel, fn, f"FCBasisSetO{k}.run dataflow", [list(x[:2]) + [x[2]] for x in flow])
        optional = [x for x in flow if x[1].startswith("OPTIONAL")]
        flow = [x for x in flow if not x[1].startswith("OPTIONAL")]

        def emit(name, fl):
            out.append(f"def {name} : List (String × String × List String) := [")
            out.append(",\n".join(f'  ({json.dumps(a)}, {json.dumps(b)}, [' + ", ".join(json.dumps(x) for x in c) + "])"
                                   for a, b, c in fl) + "]")
            out.append("")
        emit(f"runFlowO{k}", flow)
        emit(f"runFlowOptionalO{k}", optional)
    out.append("end Symfc.Gen")
    return "\n".join(out) + "\n"


# ----------------------------------------------------------------------------------------

GENERATORS = {
    "PermTables": gen_perm_tables,
    "Cutoff": gen_cutoff,
    "Solver": gen_solver,
    "SolverState": gen_solver_state,
    "ApiOrders": gen_api_orders,
    "ApiDataset": gen_api_dataset,
    "ApiSolve": gen_api_solve,
    "ApiCompute": gen_api_compute,
    "ApiDataflow": gen_api_dataflow,
    "ApiAccess": gen_api_access,
    "Api": gen_api,
    "Eig": gen_eig,
    "SumRule": gen_sumrule,
    "O1": gen_o1,
    "Purity": gen_purity,
    "SgPermSkel": gen_skel("SgPermSkel"),
    "PipelineSkel": gen_skel("PipelineSkel"),
    "PipelineFlow": gen_pipeline_flow,
    "SpgRepsSkel": gen_skel("SpgRepsSkel"),
}


def write_if_changed(path: Path, text: str) -> bool:
    if path.exists() and path.read_text() == text:
        return False
    path.parent.mkdir(parents=True, exist_ok=True)
    path.write_text(text)
    return True


def main():
    GEN.mkdir(parents=True, exist_ok=True)
    status = {"ok": True, "errors": [], "changed": [], "items": ITEMS}
    for name, fn in GENERATORS.items():
        try:
            text = fn()
        except Untranslatable as e:
            status["ok"] = False
            status["errors"].append({"gen": name, "error": "UNTRANSLATABLE " + str(e)})
            continue
        if write_if_changed(GEN / f"{name}.lean", text):
            status["changed"].append(name)
    status["source_sha"] = hashlib.sha256(
        b"".join(p.read_bytes() for p in sorted(SRC.rglob("*.py")))).hexdigest()
    (GEN / "manifest.json").write_text(json.dumps(status, indent=1))
    json.dump({k: status[k] for k in ("ok", "errors", "changed")}, sys.stdout)
    print()
    return 0 if status["ok"] else 3


if __name__ == "__main__":
    sys.exit(main())
