#!/usr/bin/env python3
"""Translator: /repo/src/symfc/**.py  (Python AST, no execution)  ->  lean/SymfcModel/Gen/*.lean

Extraction is by *shape*.  Whenever the source no longer has the expected shape the
translator raises Untranslatable("<file>:<line>: ...").  check.py treats that like a broken
proof obligation (search for a failing input on the real code; else no-failing-input-found).

Every extracted item is also recorded (with file:line) in Gen/manifest.json for the evidence.
"""
from __future__ import annotations

import ast
import hashlib
import itertools
import json
import os
import sys
from fractions import Fraction
from pathlib import Path

REPO = Path(os.environ.get("SYMFC_REPO", "/repo"))
SRC = REPO / "src" / "symfc"
HERE = Path(__file__).resolve().parent
GEN = HERE.parent / "lean" / "SymfcModel" / "Gen"


class Untranslatable(Exception):
    pass


ITEMS: list[dict] = []


def rec(file: str, node, what: str, value):
    ITEMS.append({"file": file, "line": getattr(node, "lineno", 0), "what": what, "value": value})


def parse(rel: str) -> ast.Module:
    p = SRC / rel
    try:
        return ast.parse(p.read_text(), filename=str(p))
    except (OSError, SyntaxError) as e:
        raise Untranslatable(f"{rel}: cannot parse: {e}")


def fail(rel, node, msg):
    raise Untranslatable(f"{rel}:{getattr(node, 'lineno', 0)}: {msg}")


def find_func(mod: ast.Module, name: str, rel: str, cls: str | None = None) -> ast.FunctionDef:
    body = mod.body
    if cls is not None:
        for n in mod.body:
            if isinstance(n, ast.ClassDef) and n.name == cls:
                body = n.body
                break
        else:
            raise Untranslatable(f"{rel}: class {cls} not found")
    for n in body:
        if isinstance(n, ast.FunctionDef) and n.name == name:
            return n
    raise Untranslatable(f"{rel}: function {name} not found")


def strip_doc(stmts):
    if stmts and isinstance(stmts[0], ast.Expr) and isinstance(stmts[0].value, ast.Constant) \
            and isinstance(stmts[0].value.value, str):
        return stmts[1:]
    return stmts


def lit(node, rel):
    try:
        return ast.literal_eval(node)
    except Exception:
        fail(rel, node, f"expected literal, got {ast.unparse(node)}")


def lean_list(xs) -> str:
    if isinstance(xs, (list, tuple)):
        return "[" + ", ".join(lean_list(x) for x in xs) + "]"
    if isinstance(xs, bool):
        return "true" if xs else "false"
    if isinstance(xs, str):
        return json.dumps(xs)
    return str(xs)


# ----------------------------------------------------------------------------------------
# G1: permutation tables
# ----------------------------------------------------------------------------------------

def perms_value(node, rel):
    """literal list of lists, or np.array(list(itertools.permutations(range(k))))"""
    src = ast.unparse(node)
    if isinstance(node, ast.List):
        v = lit(node, rel)
        return [list(r) for r in v]
    if isinstance(node, ast.Call) and "itertools.permutations(range(" in src:
        # np.array(list(itertools.permutations(range(4))))
        inner = node
        while isinstance(inner, ast.Call) and not (
            isinstance(inner.func, ast.Attribute) and inner.func.attr == "permutations"
        ):
            if len(inner.args) != 1:
                fail(rel, node, f"unexpected perms expression {src}")
            inner = inner.args[0]
        if not (isinstance(inner, ast.Call) and len(inner.args) == 1):
            fail(rel, node, f"unexpected perms expression {src}")
        rng = inner.args[0]
        if not (isinstance(rng, ast.Call) and getattr(rng.func, "id", None) == "range"
                and len(rng.args) == 1 and isinstance(rng.args[0], ast.Constant)):
            fail(rel, node, f"unexpected perms expression {src}")
        k = rng.args[0].value
        return [list(p) for p in itertools.permutations(range(k))]
    fail(rel, node, f"unexpected perms expression {src}")


def comb_source(node, rel):
    """`np.array([[i, i, ..] for i in range(3 * natom)], dtype=int)` -> 1
       `get_combinations(natom, order=k, fc_cutoff=fc_cutoff[, indep_atoms=indep_atoms])` -> k"""
    src = ast.unparse(node)
    if isinstance(node, ast.Call) and getattr(node.func, "id", None) == "get_combinations":
        kw = {k.arg: k.value for k in node.keywords}
        if "order" not in kw or not isinstance(kw["order"], ast.Constant):
            fail(rel, node, f"get_combinations without literal order: {src}")
        if "fc_cutoff" not in kw or ast.unparse(kw["fc_cutoff"]) != "fc_cutoff":
            fail(rel, node, f"get_combinations must forward fc_cutoff: {src}")
        indep = "indep_atoms" in kw and ast.unparse(kw["indep_atoms"]) == "indep_atoms"
        if len(node.args) != 1 or ast.unparse(node.args[0]) != "natom":
            fail(rel, node, f"get_combinations first arg must be natom: {src}")
        return kw["order"].value, indep
    if isinstance(node, ast.Call) and ast.unparse(node.func) == "np.array" and node.args \
            and isinstance(node.args[0], ast.ListComp):
        lc = node.args[0]
        gen = lc.generators[0]
        if ast.unparse(gen.iter) != "range(3 * natom)" or not isinstance(lc.elt, ast.List):
            fail(rel, node, f"unexpected diagonal combinations: {src}")
        if not all(ast.unparse(e) == ast.unparse(gen.target) for e in lc.elt.elts):
            fail(rel, node, f"unexpected diagonal combinations: {src}")
        return 1, True
    fail(rel, node, f"unexpected combinations source: {src}")


def extract_perm_stages(order: int):
    rel = f"utils/permutation_tools_O{order}.py"
    mod = parse(rel)
    fn = find_func(mod, f"compr_permutation_lat_trans_O{order}", rel)
    stages = []
    cur_comb = None
    cur_perms = None
    for st in strip_doc(fn.body):
        if isinstance(st, ast.Assign) and len(st.targets) == 1 and isinstance(st.targets[0], ast.Name):
            name = st.targets[0].id
            if name == "combinations":
                cur_comb = comb_source(st.value, rel)
            elif name == "perms":
                cur_perms = perms_value(st.value, rel)
            elif name == "perm_decompr_idx" and isinstance(st.value, ast.Call) \
                    and getattr(st.value.func, "id", None) == "_update_perm_decompr_indices":
                call = st.value
                if cur_comb is None or cur_perms is None:
                    fail(rel, st, "stage without combinations/perms")
                pos = [ast.unparse(a) for a in call.args]
                if pos != ["combinations", "perms", "atomic_decompr_idx", "trans_perms", "perm_decompr_idx"]:
                    fail(rel, st, f"unexpected positional args {pos}")
                kw = {k.arg: k.value for k in call.keywords}
                g = kw.get("n_perms_group")
                if not isinstance(g, ast.Constant):
                    fail(rel, st, "n_perms_group must be a literal")
                nb = ast.unparse(kw["n_batch"]) if "n_batch" in kw else "1"
                k, indep = cur_comb
                if not indep:
                    fail(rel, st, "combinations must be restricted to independent first atoms")
                stage = {"combOrder": k, "perms": cur_perms, "nPermsGroup": g.value, "batchKey": nb}
                rec(rel, st, f"O{order} stage {len(stages)}",
                    {"combOrder": k, "n_perms": len(cur_perms), "nPermsGroup": g.value, "n_batch": nb})
                stages.append(stage)
                cur_comb = cur_perms = None
    if not stages:
        fail(rel, fn, "no stages found")
    # final statement must build c_pt from the pointer array
    last = [s for s in fn.body if isinstance(s, ast.Assign) and ast.unparse(s.targets[0]) == "c_pt"]
    if not last or "construct_basis_from_perm_decompr_indices(perm_decompr_idx" not in ast.unparse(last[-1]):
        fail(rel, fn, "c_pt is not constructed from perm_decompr_idx")

    # representative kind + write-loop shape in _update_perm_decompr_indices
    up = find_func(mod, "_update_perm_decompr_indices", rel)
    rep = None
    loop_ok = False
    batch_expr = None
    for node in ast.walk(up):
        if isinstance(node, ast.For) and ast.unparse(node.iter) == "decompr_idx_combs_perm.T":
            tgt = ast.unparse(node.target)
            if len(node.body) == 1 and isinstance(node.body[0], ast.Assign):
                a = node.body[0]
                if ast.unparse(a.targets[0]) == f"perm_decompr_idx[{tgt}]":
                    v = ast.unparse(a.value)
                    if v == "decompr_idx_combs_perm[:, 0]":
                        rep = "col0"
                    elif v in ("decompr_idx_combs_perm.min(axis=1)", "np.min(decompr_idx_combs_perm, axis=1)"):
                        rep = "rowMin"
                    else:
                        fail(rel, a, f"unknown representative expression {v}")
                    loop_ok = True
                    rec(rel, a, f"O{order} representative", rep)
        if isinstance(node, ast.For) and "get_batch_slice" in ast.unparse(node.iter):
            batch_expr = ast.unparse(node.iter)
    if not loop_ok:
        fail(rel, up, "write loop `for col in rows.T: ptr[col] = rep` not found")
    if batch_expr != "zip(*get_batch_slice(n_comb, n_comb // n_batch))":
        fail(rel, up, f"unexpected batch expression {batch_expr}")
    src_up = ast.unparse(up)
    want = [
        f"combinations[begin:end][:, permutations].reshape((-1, {order}))",
        "decompr_idx_combs_perm.reshape(-1, n_perms_sym)",
        "n_perms_sym = n_perms // n_perms_group",
        f"atomic_decompr_idx[combs_perm] * {3**order} + combs{'3'*order}",
    ]
    for w in want:
        if w not in src_up:
            fail(rel, up, f"expected `{w}` in _update_perm_decompr_indices")
    # index transform  _N3.._to_N..and3..
    tr = [n for n in mod.body if isinstance(n, ast.FunctionDef) and "_to_" in n.name and "and" in n.name]
    if len(tr) != 1:
        fail(rel, mod, "index transform function not found")
    strides = extract_index_transform(tr[0], rel, order)
    rec(rel, tr[0], f"O{order} index transform strides", strides)
    # default n_batch thresholds
    defaults = {}
    for node in ast.walk(fn):
        if isinstance(node, ast.Assign) and isinstance(node.value, ast.IfExp) and \
                isinstance(node.targets[0], ast.Name) and node.targets[0].id.startswith("n_batch"):
            t = node.value.test
            if isinstance(t, ast.Compare) and ast.unparse(t.left) == "natom" and isinstance(t.ops[0], ast.LtE):
                defaults[node.targets[0].id] = lit(t.comparators[0], rel)
                rec(rel, node, f"O{order} default {node.targets[0].id} threshold", defaults[node.targets[0].id])
    # F6: every batchKey used must be bound on the explicit-n_batch path
    bound_when_explicit = set(["1", "n_batch"])
    for node in fn.body:
        if isinstance(node, ast.Assign) and isinstance(node.targets[0], ast.Name) \
                and node.targets[0].id.startswith("n_batch"):
            bound_when_explicit.add(node.targets[0].id)
        if isinstance(node, ast.If) and ast.unparse(node.test) == "n_batch is None":
            # names bound only under `if n_batch is None` are unbound otherwise, unless else binds
            then_names = {ast.unparse(s.targets[0]) for s in node.body if isinstance(s, ast.Assign)}
            else_names = {ast.unparse(s.targets[0]) for s in node.orelse if isinstance(s, ast.Assign)}
            bound_when_explicit |= (then_names & else_names)
    explicit_ok = all(s["batchKey"] in bound_when_explicit for s in stages)
    rec(rel, fn, f"O{order} explicit n_batch binds every stage batch name", explicit_ok)
    return stages, rep, strides, defaults, explicit_ok


def extract_index_transform(fn: ast.FunctionDef, rel, order):
    """_N3N3N3_to_NNNand333: returns [(atomStride exponent, cartStride)] per position."""
    atom = {}
    cart = {}
    cur = None
    for st in strip_doc(fn.body):
        s = ast.unparse(st)
        if isinstance(st, ast.Assign) and isinstance(st.value, ast.Call) and ast.unparse(st.value.func) == "np.divmod":
            arg = ast.unparse(st.value.args[0])
            if not (arg.startswith("combs[:, ") and ast.unparse(st.value.args[1]) == "3"):
                fail(rel, st, f"unexpected divmod {s}")
            cur = int(arg[len("combs[:, "):-1])
            tg = [ast.unparse(t) for t in st.targets[0].elts]
            if tg[0].startswith("vecN"):
                atom[cur] = "1"
                cart[cur] = "1"
                first = True
            else:
                first = False
            continue
        if isinstance(st, ast.AugAssign):
            tname = ast.unparse(st.target)
            val = ast.unparse(st.value)
            if isinstance(st.op, ast.Mult):
                if tname.startswith("vecN"):
                    atom[cur] = val
                else:
                    cart[cur] = val
            elif isinstance(st.op, ast.Add):
                parts = val.split(" * ")
                mult = parts[1] if len(parts) == 2 else "1"
                if parts[0] not in ("div", "mod"):
                    fail(rel, st, f"unexpected accumulate {s}")
                if tname.startswith("vecN"):
                    atom[cur] = mult
                else:
                    cart[cur] = mult
            continue
        if isinstance(st, ast.Return):
            continue
        fail(rel, st, f"unexpected statement in index transform: {s}")

    def ev(expr):
        return int(eval(expr.replace("N", "7"), {}))  # N := 7 -> exponent

    out = []
    for p in range(order):
        if p not in atom or p not in cart:
            fail(rel, fn, f"position {p} not handled")
        a = ev(atom[p])
        e = {1: 0, 7: 1, 49: 2, 343: 3}.get(a)
        if e is None:
            fail(rel, fn, f"atom stride {atom[p]} not a power of N")
        out.append([e, int(cart[p])])
    return out


def extract_projector_tables(order: int):
    """perms tables of the projector variants in matrix_tools_O{n} (fast-vs-reference, C11)."""
    rel = f"utils/matrix_tools_O{order}.py"
    mod = parse(rel)
    tables = []
    for node in ast.walk(mod):
        if isinstance(node, ast.Assign) and isinstance(node.targets[0], ast.Name) and node.targets[0].id == "perms":
            tables.append(perms_value(node.value, rel))
            rec(rel, node, f"O{order} projector perms table", len(tables[-1]))
    groups = []
    for node in ast.walk(mod):
        if isinstance(node, ast.keyword) and node.arg == "n_perms_group" and isinstance(node.value, ast.Constant):
            groups.append(node.value.value)
    return tables, groups


def gen_perm_tables():
    out = ["/- REGENERATED by tools/extract.py from permutation_tools_O{2,3,4}.py and",
           "   matrix_tools_O{2,3,4}.py — do not edit. -/",
           "import SymfcModel.Model.Types", "namespace Symfc.Gen", "open Symfc", ""]
    for order in (2, 3, 4):
        stages, rep, strides, defaults, explicit_ok = extract_perm_stages(order)
        out.append(f"def stagesO{order} : List Stage := [")
        rows = []
        for s in stages:
            rows.append(
                f"  {{ combOrder := {s['combOrder']}, perms := {lean_list(s['perms'])},\n"
                f"    nPermsGroup := {s['nPermsGroup']}, batchKey := {json.dumps(s['batchKey'])} }}")
        out.append(",\n".join(rows))
        out.append("]")
        out.append(f"def repKindO{order} : RepKind := .{rep}")
        out.append(f"/-- (exponent of N for the atom stride, Cartesian stride) per tuple position -/")
        out.append(f"def idxStridesO{order} : List (Nat × Nat) := {lean_list([tuple(x) for x in strides]).replace('[[','[(').replace(']]',')]').replace('], [', '), (')}")
        out.append(f"def batchDefaultsO{order} : List (String × Nat) := [" +
                   ", ".join(f"({json.dumps(k)}, {v})" for k, v in sorted(defaults.items())) + "]")
        out.append(f"def explicitBatchBoundO{order} : Bool := {lean_list(explicit_ok)}")
        tables, groups = extract_projector_tables(order)
        out.append(f"def projTablesO{order} : List (List (List Nat)) := {lean_list(tables)}")
        out.append(f"def projGroupsO{order} : List Nat := {lean_list(groups)}")
        out.append("")
    out.append("end Symfc.Gen")
    return "\n".join(out) + "\n"


# ----------------------------------------------------------------------------------------
# G6: cutoff comparison sites
# ----------------------------------------------------------------------------------------

CMP = {ast.Lt: "lt", ast.LtE: "le", ast.Gt: "gt", ast.GtE: "ge", ast.Eq: "eq", ast.NotEq: "ne"}


def cutoff_compares(fn: ast.FunctionDef, rel):
    """all `... <op> self._cutoff` compares inside fn, in source order"""
    res = []
    for node in ast.walk(fn):
        if isinstance(node, ast.Compare) and len(node.ops) == 1 \
                and ast.unparse(node.comparators[0]) == "self._cutoff":
            res.append((node.lineno, node.col_offset, CMP[type(node.ops[0])], ast.unparse(node.left), node))
    res.sort(key=lambda t: (t[0], t[1]))
    return res


def pair_of(left: str, rel, node):
    # self.distances[combs[:, p] // 3, combs[:, q] // 3]  or  self.distances[combs[:, p], combs[:, q]]
    import re
    m = re.fullmatch(r"self\.distances\[\(?combs\[:, (\d)\](?: // 3)?, combs\[:, (\d)\](?: // 3)?\)?\]", left)
    if not m:
        fail(rel, node, f"unexpected distance test {left}")
    return int(m.group(1)), int(m.group(2))


def idx_compare(fn, rel, var):
    for node in ast.walk(fn):
        if isinstance(node, ast.Compare) and len(node.ops) == 1 and ast.unparse(node.comparators[0]) == var:
            l = ast.unparse(node.left)
            if l in ("3 * j + b", "3 * i + a"):
                return CMP[type(node.ops[0])], node
    fail(rel, fn, f"index filter against {var} not found")


def gen_cutoff():
    rel = "utils/cutoff_tools.py"
    mod = parse(rel)
    cls = "FCCutoff"
    ops = {}
    nb = cutoff_compares(find_func(mod, "neighbors", rel, cls), rel)
    if len(nb) != 1 or nb[0][3] != "self._distances[i]":
        fail(rel, mod, "neighbors: expected one compare of self._distances[i] with self._cutoff")
    ops["neighbors"] = nb[0][2]
    rec(rel, nb[0][4], "neighbors compare", nb[0][2])
    ou = cutoff_compares(find_func(mod, "outsides", rel, cls), rel)
    if len(ou) != 1:
        fail(rel, mod, "outsides: expected one compare")
    ops["outsides"] = ou[0][2]
    rec(rel, ou[0][4], "outsides compare", ou[0][2])
    # neighbours list must be built from neighbors[last // 3]
    for name, key in (("combinations3", "comb3"), ("combinations4", "comb4"),
                      ("nonzero_atomic_indices_fc3", "nonzero3"), ("nonzero_atomic_indices_fc4", "nonzero4")):
        fn = find_func(mod, name, rel, cls)
        cs = cutoff_compares(fn, rel)
        ops[key] = [(*pair_of(c[3], rel, c[4]), c[2]) for c in cs]
        rec(rel, fn, f"{name} pair tests", [[*pair_of(c[3], rel, c[4]), c[2]] for c in cs])
    c2, n2 = idx_compare(find_func(mod, "combinations2", rel, cls), rel, "jb")
    c3, n3 = idx_compare(find_func(mod, "combinations3", rel, cls), rel, "kc")
    c4, n4 = idx_compare(find_func(mod, "combinations4", rel, cls), rel, "ld")
    ops["comb2Idx"], ops["comb3Idx"], ops["comb4Idx"] = c2, c3, c4
    rec(rel, n2, "combinations2 index filter", c2)
    rec(rel, n3, "combinations3 index filter", c3)
    rec(rel, n4, "combinations4 index filter", c4)
    # structural shape checks
    src = {n: ast.unparse(find_func(mod, n, rel, cls)) for n in
           ("combinations2", "combinations3", "combinations4", "combinations3_all", "combinations4_all",
            "nonzero_atomic_indices_fc2", "nonzero_atomic_indices_fc3", "nonzero_atomic_indices_fc4")}
    shape = [
        ("combinations2", "for i in self.neighbors[j] for a in range(3)"),
        ("combinations2", "j = jb // 3"),
        ("combinations2", "for jb in range(3 * self._n_atom)"),
        ("combinations3", "k = kc // 3"),
        ("combinations3", "for j in self.neighbors[k] for b in range(3)"),
        ("combinations3", "itertools.combinations(neighbors_N3, 2)"),
        ("combinations3", "np.hstack([combs, np.full((combs.shape[0], 1), kc)])"),
        ("combinations4", "ll = ld // 3"),
        ("combinations4", "for j in self.neighbors[ll] for b in range(3)"),
        ("combinations4", "itertools.combinations(neighbors_N3, 3)"),
        ("combinations4", "np.hstack([combs, np.full((combs.shape[0], 1), ld)])"),
        ("combinations3_all", "for kc in range(3 * self._n_atom)"),
        ("combinations3_all", "self.combinations3(kc)"),
        ("combinations4_all", "for ld in range(3 * self._n_atom)"),
        ("combinations4_all", "self.combinations4(ld)"),
        ("nonzero_atomic_indices_fc2", "np.array(self.neighbors[i]) + i * self._n_atom"),
        ("nonzero_atomic_indices_fc3", "itertools.product(jlist, jlist)"),
        ("nonzero_atomic_indices_fc3", "combs @ np.array([self._n_atom, 1]) + i * self._n_atom ** 2"),
        ("nonzero_atomic_indices_fc4", "itertools.product(*[jlist, jlist, jlist])"),
        ("nonzero_atomic_indices_fc4", "combs @ np.array([self._n_atom ** 2, self._n_atom, 1])"),
        ("nonzero_atomic_indices_fc4", "ids += i * self._n_atom ** 3"),
    ]
    for fnn, w in shape:
        if w not in src[fnn]:
            fail(rel, mod, f"{fnn}: expected `{w}`")
    # image range of _calc_distances
    cd = find_func(mod, "_calc_distances", rel, cls)
    images = None
    for node in ast.walk(cd):
        if isinstance(node, ast.Call) and ast.unparse(node.func) == "itertools.product":
            a = node.args[0]
            if isinstance(a, ast.Starred):
                v = lit(a.value, rel)
                if len(v) == 3 and v[0] == v[1] == v[2]:
                    images = v[0]
    if images is None:
        fail(rel, cd, "image range not found in _calc_distances")
    rec(rel, cd, "_calc_distances images per axis", images)
    if "match = norms_trial < norms" not in ast.unparse(cd):
        fail(rel, cd, "_calc_distances: minimum update `norms_trial < norms` not found")

    def tl(ts):
        return "[" + ", ".join(f"({p}, {q}, .{c})" for p, q, c in ts) + "]"

    out = ["/- REGENERATED by tools/extract.py from utils/cutoff_tools.py — do not edit. -/",
           "import SymfcModel.Model.Types", "namespace Symfc.Gen", "open Symfc", "",
           "def cutoffOps : CutoffOps := {",
           f"  neighbors := .{ops['neighbors']}, outsides := .{ops['outsides']},",
           f"  comb3 := {tl(ops['comb3'])},", f"  comb4 := {tl(ops['comb4'])},",
           f"  nonzero3 := {tl(ops['nonzero3'])},", f"  nonzero4 := {tl(ops['nonzero4'])},",
           f"  comb2Idx := .{ops['comb2Idx']}, comb3Idx := .{ops['comb3Idx']}, comb4Idx := .{ops['comb4Idx']},",
           f"  images := {lean_list(images)} }}", "", "end Symfc.Gen"]
    return "\n".join(out) + "\n"


# ----------------------------------------------------------------------------------------

GENERATORS = {
    "PermTables": gen_perm_tables,
    "Cutoff": gen_cutoff,
}


def write_if_changed(path: Path, text: str) -> bool:
    if path.exists() and path.read_text() == text:
        return False
    path.parent.mkdir(parents=True, exist_ok=True)
    path.write_text(text)
    return True


def main():
    GEN.mkdir(parents=True, exist_ok=True)
    status = {"ok": True, "errors": [], "changed": [], "items": ITEMS}
    for name, fn in GENERATORS.items():
        try:
            text = fn()
        except Untranslatable as e:
            status["ok"] = False
            status["errors"].append({"gen": name, "error": "UNTRANSLATABLE " + str(e)})
            continue
        if write_if_changed(GEN / f"{name}.lean", text):
            status["changed"].append(name)
    status["source_sha"] = hashlib.sha256(
        b"".join(p.read_bytes() for p in sorted(SRC.rglob("*.py")))).hexdigest()
    (GEN / "manifest.json").write_text(json.dumps(status, indent=1))
    json.dump({k: status[k] for k in ("ok", "errors", "changed")}, sys.stdout)
    print()
    return 0 if status["ok"] else 3


if __name__ == "__main__":
    sys.exit(main())
