#!/bin/bash
# run every quick check over several seeds; print every non-zero exit
cd "$(dirname "$0")/.."
python3 tools/extract.py >/dev/null; (cd lean && lake build SymfcModel SymfcModel.Props >/dev/null 2>&1)
SEEDS=${SEEDS:-"1 2 3 4 5 6 7 8"}
TIER=${TIER:---quick}
fail=0
for s in $SEEDS; do
  for p in C01 C02 C03 C04 C05 C06 C07 C08 C09 C10 C11 C12 C13 C14 C15 C16; do
    out=$(VERIF_SEED=$s python3 check.py $p $TIER 2>&1); rc=$?
    if [ $rc -ne 0 ]; then fail=1; echo "SEED $s $p rc=$rc"; echo "$out" | grep -v "WARNING conda" | tail -4; cp replays/${p}_*.json /tmp/ 2>/dev/null; fi
  done
  echo "seed $s done"
done
echo "soak finished fail=$fail"
